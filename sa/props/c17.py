"""C17 -- format identification follows the documented table and is read-only.

* C17.read-only       from identify_pytorch_file_format no reachable operation writes, extracts, renames, removes or
                      links; every open of the examined file has a literal read mode; nothing reachable is a source of
                      non-determinism or keeps per-path state between calls.
* C17.table-floor     where the decision table is a literal, it is the documented one in the documented order and the row
                      whose only key is `has_data_pkl` names "PyTorch v1.3".
* C17.table-worlds    identify_pytorch_file_format, find_file_properties, check_and_find_in_zip, check_for_corruption and
                      check_if_model_archive_format are *interpreted* (sa/minieval) over abstract files: all 32 subsets of
                      the five marker members x placement (root / one directory deep / two deep) x {zip at offset 0, zip
                      with leading junk, no zip} x {no tar, legacy tar, other tar} x stacked pickle x model-archive
                      members; the answer must contain exactly the documented rows that match, in the documented order and
                      first, plus exactly the non-zip formats whose evidence is present.  (Sub-rules that matched the shape
                      of the comprehension were retired for this: they fired on behaviour-preserving rewrites.)
* C17.legacy-pickle   check_pickle (and StackedPickle.load under it) interpreted over abstract streams of pickles: the
                      stacks torch's legacy save writes - first pickle 2 opcodes (protocol 0/1), 3 (protocol 2/3) or 4
                      (framed) - are valid; a file with no pickle is not.
* C17.inputs-untouched create_polyglot uses its two input paths only as the *source* of a content copy (and for
                      basename); every write targets the temp copies or the output name.
* C17.cleanup         every temporary artefact the polyglot constructors create is removed on every exit of the
                      creating function, including the exceptional one (acquire/release pairing over a CFG with
                      exceptional edges).
"""

from __future__ import annotations

import ast
from typing import Dict, List, Optional, Set, Tuple

from ..callgraph import CallGraph
from ..cfg import CFG
from ..effects import classify_external, classify_method, open_mode
from ..model import FuncInfo, Repo, dotted, load_repo
from ..report import AnalysisError, Report
from ..util import canon_func, MUTATORS, base_of, body_walk, kwarg, src, store_targets

PG = "fickling.polyglot"
DOC_TABLE = [
    (["has_data_pkl", "has_constants_pkl", "has_version"], "TorchScript v1.4"),
    (["has_data_pkl", "has_constants_pkl"], "TorchScript v1.3"),
    (["has_model_json", "has_constants_pkl"], "TorchScript v1.0"),
    (["has_model_json", "has_attributes_pkl"], "TorchScript v1.1"),
    (["has_data_pkl"], "PyTorch v1.3"),
]
DOC_MARKERS = ["data.pkl", "constants.pkl", "version", "model.json", "attributes.pkl"]
AUDITED_READERS = {
    "torch.serialization._is_zipfile": "reads the magic number at offset 0 of an open file",
    "numpy.lib.format.read_magic": "reads the 8-byte numpy magic",
    "numpy.lib.format.descr_to_dtype": "builds a dtype from the parsed header",
    "numpy.lib.format._header_size_info.get": "table lookup",
    "zipfile.ZipFile": "opened with a literal read mode (checked)",
    "zipfile.is_zipfile": "reads the central directory",
    "tarfile.is_tarfile": "reads the first header",
    "tarfile.open": "opened with a literal read mode (checked)",
    "tarfile.PAX_FORMAT": "constant",
    "ast.literal_eval": "parses a literal",
    "struct.calcsize": "pure",
    "struct.unpack": "pure",
}
NONDET = ("random.", "time.", "uuid.", "secrets.", "os.urandom", "datetime.", "os.getpid", "os.environ", "socket.", "tempfile.")


def check_read_only(repo: Repo, rep: Report):
    cg = CallGraph(repo)
    root = repo.func(f"{PG}.identify_pytorch_file_format")
    reached, parent, sites = cg.reachable([(root, None)])
    # Python pitfalls that make the answer depend on member ORDER rather than on which members exist
    from ..pitfalls import check_pitfalls

    check_pitfalls(repo, rep, "C17.table-floor", [f for f in reached.values() if f.module.name == PG])
    unaudited = []
    n_sites = 0
    for s in sites:
        f = s.func
        if not f.module.name.startswith("fickling"):
            continue
        n_sites += 1
        for q in s.externals:
            v = classify_external(q)
            if q in AUDITED_READERS:
                v = "inert"
            if any(q.startswith(p) for p in NONDET):
                rep.bad("C17.read-only", f.qualname, f"nondeterminism:{q}", f"`{src(s.node)}` ({q}) is reachable from format identification: the answer is no longer a function of the file's bytes alone", f.file, s.line, path=cg.path_to(parent, f.qualname))
                continue
            if q == "builtins.open" and isinstance(s.node, ast.Call):
                mode, lit = open_mode(s.node)
                v = "inert" if lit and not any(c in mode for c in "wax+") else "forbidden"
                q = f"builtins.open(mode={mode!r})" if lit else "builtins.open(<non-literal mode>)"
            if q in ("zipfile.ZipFile", "tarfile.open", "tarfile.TarFile") and isinstance(s.node, ast.Call):
                m = kwarg(s.node, "mode", 1)
                if m is None:
                    mode, lit = "r", True
                elif isinstance(m, ast.Constant):
                    mode, lit = str(m.value), True
                else:
                    mode, lit = None, False
                if not lit or any(c in mode for c in "wax+"):
                    v = "forbidden"
                    q = f"{q}(mode={mode!r})"
                else:
                    v = "inert"
            if v == "forbidden":
                rep.bad("C17.read-only", f.qualname, f"writes:{q}", f"`{src(s.node)}` ({q}) is reachable from identify_pytorch_file_format: identification is not read-only", f.file, s.line, path=cg.path_to(parent, f.qualname))
            elif v == "unaudited":
                unaudited.append(f"{q} at {f.file}:{s.line}")
        for qm in list(s.ext_methods) + [f"<untyped>.{m}" for m in s.untyped_methods]:
            name = qm.rsplit(".", 1)[1]
            v = classify_method(name)
            if qm.startswith("<untyped>") and s.targets and v != "forbidden":
                continue
            if qm.rsplit(".", 1)[0] in ("io.BytesIO", "io.StringIO", "BytesIO", "StringIO", "bytearray"):
                continue  # in-memory buffer
            if name in ("extract", "extractall", "write", "writestr", "writelines", "truncate", "unlink", "rename", "add", "remove") and not qm.split(".")[0] in ("list", "set", "dict", "List", "Set", "Dict"):
                if name in ("add", "remove") and not qm.startswith(("zipfile", "tarfile", "<untyped>")):
                    continue
                if name == "add" and isinstance(s.node, ast.Call) and isinstance(s.node.func, ast.Attribute) and (dotted(s.node.func.value) or "").endswith("entries"):
                    continue
                rep.bad("C17.read-only", f.qualname, f"writes:.{name}", f"`{src(s.node)}` is reachable from identify_pytorch_file_format: identification is not read-only", f.file, s.line, path=cg.path_to(parent, f.qualname))
            elif v == "unaudited" and name not in ("namelist", "getnames", "next", "extractfile", "hasobject", "issubset", "get", "decode", "groups", "opcodes", "infolist", "getmembers", "is_dir", "is_file", "isdir", "isfile", "isreg", "getinfo", "testzip"):
                unaudited.append(f"{qm} at {f.file}:{s.line}")
    if unaudited:
        raise AnalysisError("unaudited operation(s) on the identification path: " + "; ".join(sorted(set(unaudited))[:10]))
    # no state kept between calls
    for qn, f in reached.items():
        if f.module.name != PG:
            continue
        for d in getattr(f.node, "decorator_list", []):
            dn = dotted(d) or (dotted(d.func) if isinstance(d, ast.Call) else "") or ""
            if dn.split(".")[-1] in ("lru_cache", "cache"):
                rep.bad("C17.read-only", f.qualname, f"memoised:{dn}", f"{f.qualname} is memoised: a path whose content changed is answered from the earlier content", f.file, f.line)
        globs = {g for n in body_walk(f.node) if isinstance(n, ast.Global) for g in n.names}
        mod_names = set(f.module.assigns)
        local_assigned = {t.id for n in body_walk(f.node) if isinstance(n, (ast.Assign, ast.AnnAssign, ast.AugAssign, ast.For)) for t in store_targets(n) if isinstance(t, ast.Name)}
        for n in body_walk(f.node):
            if isinstance(n, (ast.Assign, ast.AugAssign, ast.Delete)):
                for t in store_targets(n):
                    b = base_of(t)
                    d = dotted(b) or ""
                    if (isinstance(t, ast.Name) and t.id in globs) or (d.split(".")[0] in mod_names and d.split(".")[0] not in local_assigned and d.split(".")[0] not in f.params() and (isinstance(t, ast.Subscript) or "." in d)):
                        rep.bad("C17.read-only", f.qualname, f"module-state:{d or t.id}", f"`{src(n)}` keeps state in a module-level object: identification depends on the call history (e.g. a per-path cache answers for bytes that have since changed)", f.file, n.lineno)
            if isinstance(n, ast.Call) and isinstance(n.func, ast.Attribute) and n.func.attr in MUTATORS:
                d = dotted(base_of(n.func.value)) or ""
                if d and d.split(".")[0] in mod_names and d.split(".")[0] not in local_assigned and d.split(".")[0] not in f.params():
                    rep.bad("C17.read-only", f.qualname, f"module-state:{d}", f"`{src(n)}` mutates a module-level object from the identification path", f.file, n.lineno)
    for qn, f in reached.items():
        if f.module.name == PG:
            rep.ok("C17.read-only", qn, "reached: opens read-only, no write/extract/rename, no module-level state", f"{f.file}:{f.line}")
    rep.units = {"reached_functions": len(reached), "call_sites": n_sites}
    if len([f for f in reached.values() if f.module.name == PG]) < 7:
        raise AnalysisError("fewer than 7 polyglot functions reached from identify_pytorch_file_format")


def check_table(repo: Repo, rep: Report):
    f = repo.func(f"{PG}.identify_pytorch_file_format")
    # the dict of file properties, whatever the local is called: bound from find_file_properties(...)
    pn = [t.id for n in body_walk(f.node) if isinstance(n, ast.Assign) and isinstance(n.value, ast.Call) and (dotted(n.value.func) or "").split(".")[-1] == "find_file_properties" for t in n.targets if isinstance(t, ast.Name)]
    if len(pn) == 1:
        f = canon_func(f, rename={pn[0]: "properties"})
    file = f.file
    tables = [n for n in body_walk(f.node) if isinstance(n, ast.Assign) and isinstance(n.value, (ast.List, ast.Tuple)) and n.value.elts and all(isinstance(e, ast.Tuple) and len(e.elts) == 2 for e in n.value.elts)]
    if len(tables) != 1:
        rep.info("C17.table-floor: no single literal decision table in identify_pytorch_file_format; the table is decided by C17.table-worlds alone")
        return
    tnode = tables[0]
    tname = tnode.targets[0].id
    try:
        table = ast.literal_eval(tnode.value)
    except Exception:
        rep.info("C17.table-floor: the decision table is not a literal; decided by C17.table-worlds alone")
        return
    table = [(list(k), v) for k, v in table]
    if table == DOC_TABLE:
        rep.ok("C17.table-floor", f.qualname, "decision table equals the documented five rows in the documented order", f"{file}:{tnode.lineno}")
    else:
        missing = [r for r in DOC_TABLE if r not in table]
        extra = [r for r in table if r not in DOC_TABLE]
        what = f"missing rows {missing}; " if missing else ""
        what += f"unexpected rows {extra}; " if extra else ""
        if not missing and not extra:
            what = f"row order {[v for _, v in table]} differs from the documented precedence {[v for _, v in DOC_TABLE]}"
        rep.bad("C17.table-floor", f.qualname, "table-differs", f"the decision table deviates from the documented one: {what}", file, tnode.lineno)
    floor = [r for r in table if r[0] == ["has_data_pkl"]]
    if floor and floor[0][1] == "PyTorch v1.3":
        rep.ok("C17.table-floor", f.qualname, "row (has_data_pkl) -> 'PyTorch v1.3': anything torch's zip reader accepts is reported at least as v1.3", f"{file}:{tnode.lineno}")
    else:
        rep.bad("C17.table-floor", f.qualname, "no-v1.3-floor", "no row whose only key is has_data_pkl names 'PyTorch v1.3'", file, tnode.lineno)
    # how the table is applied (all matching rows, in order, only for torch zips, nothing edited afterwards) and how the
    # has_<marker> facts are derived is decided by interpretation: C17.table-worlds


COPY_FUNCS = {"shutil.copy", "shutil.copyfile", "shutil.copy2"}
ALIASING = {"os.link", "os.symlink", "os.rename", "os.replace", "shutil.move", "os.renames"}


def check_inputs(repo: Repo, rep: Report):
    f = repo.func(f"{PG}.create_polyglot")
    ins = f.params()[:2]
    file = f.file
    uses = []
    parents: Dict[int, ast.AST] = {}
    for n in body_walk(f.node):
        for ch in ast.iter_child_nodes(n):
            parents[id(ch)] = n
    ok = True
    for n in body_walk(f.node):
        if isinstance(n, ast.Name) and n.id in ins and isinstance(n.ctx, ast.Load):
            p = parents.get(id(n))
            q = (repo.resolve_expr(f.module, p.func) if isinstance(p, ast.Call) else None) or ""
            if isinstance(p, ast.Call) and q in COPY_FUNCS and p.args and p.args[0] is n:
                uses.append("copy-source")
            elif isinstance(p, ast.Call) and q in ("os.path.basename", "os.fspath", "builtins.str"):
                uses.append("basename")
            else:
                ok = False
                extra = ""
                if isinstance(p, ast.Call) and (q in ALIASING or q.endswith(("link", "symlink", "rename", "move"))):
                    extra = ": the working 'copy' shares the input's storage, so appending to it modifies the caller's file"
                rep.bad("C17.inputs-untouched", f.qualname, f"input-used:{q or type(p).__name__}", f"input path `{n.id}` flows into `{src(p) if p is not None else n.id}` (not the source of a content copy / basename){extra}", file, n.lineno)
    # helper functions that receive an input path
    for n in body_walk(f.node):
        if isinstance(n, ast.Call):
            q = repo.resolve_expr(f.module, n.func, set(f.params())) or ""
            lk = repo.lookup(q)
            if isinstance(lk, FuncInfo) and any(isinstance(a, ast.Name) and a.id in ins for a in n.args):
                # the helper must itself be a pure content copy
                calls = [repo.resolve_expr(lk.module, c.func, set(lk.params())) or "" for c in body_walk(lk.node) if isinstance(c, ast.Call)]
                bad = [c for c in calls if c in ALIASING or c.split(".")[-1] in ("link", "symlink", "rename", "move", "replace")]
                if bad:
                    ok = False
                    rep.bad("C17.inputs-untouched", lk.qualname, f"input-aliased:{bad[0]}", f"{lk.qualname} receives an input path and calls {bad[0]}: the working file aliases the caller's file, so the append-based polyglot builders write through to it", lk.file, lk.line)
    if ok and uses.count("copy-source") >= 2:
        rep.ok("C17.inputs-untouched", f.qualname, f"`{ins[0]}` / `{ins[1]}` are used only as the source of shutil.copy and for basename ({len(uses)} uses)", f"{file}:{f.line}")
    elif ok:
        rep.bad("C17.inputs-untouched", f.qualname, "no-working-copies", "create_polyglot no longer makes content copies of both inputs before building", file, f.line)
    # writes of the builders target names derived from the temp copies / output name
    af = repo.func(f"{PG}.append_file")
    opens = [n for n in body_walk(af.node) if isinstance(n, ast.Call) and dotted(n.func) == "open"]
    modes = {dotted(o.args[0]): open_mode(o)[0] for o in opens if o.args}
    if modes.get(af.params()[0]) == "rb" and modes.get(af.params()[1]) == "ab":
        rep.ok("C17.inputs-untouched", af.qualname, "append_file reads its source ('rb') and appends to its destination ('ab')", f"{af.file}:{af.line}")
    else:
        rep.bad("C17.inputs-untouched", af.qualname, f"append-modes:{modes}", f"append_file opens {modes}", af.file, af.line)


def check_cleanup(repo: Repo, rep: Report):
    def acq_copy(f, c, q, parents):
        if len(c.args) == 2 and (dotted(c.args[1]) or "").startswith("temp_") and isinstance(c.args[0], ast.Name) and not q.startswith("os.path"):
            return dotted(c.args[1])
        return None

    def acq_extract(f, c, q, parents):
        if isinstance(c.func, ast.Attribute) and c.func.attr in ("extract", "extractall") and len(c.args) >= 2:
            if isinstance(c.args[1], ast.Constant):
                return c.args[1].value
            if dotted(c.args[1]):
                return dotted(c.args[1])
        if q in ("tempfile.mkdtemp", "tempfile.mkstemp", "tempfile.mktemp"):
            st = parents.get(id(c))
            if isinstance(st, ast.Assign) and len(st.targets) == 1 and isinstance(st.targets[0], ast.Name):
                return st.targets[0].id
            return "<unnamed temporary>"
        if q in ("os.mkdir", "os.makedirs") and c.args:
            return c.args[0].value if isinstance(c.args[0], ast.Constant) else dotted(c.args[0])
        return None

    def rel_rmtree(c, q, name):
        return q in ("shutil.rmtree",) and bool(c.args) and ((isinstance(c.args[0], ast.Constant) and c.args[0].value == name) or dotted(c.args[0]) == name)

    for qual, acquire_fn, release_pred, what in (
        (f"{PG}.create_polyglot", acq_copy, lambda c, q, name: q in ("os.remove", "os.unlink") and c.args and dotted(c.args[0]) == name, "temp copy"),
        (f"{PG}.create_standard_torchscript_polyglot", acq_extract, rel_rmtree, "extraction directory"),
    ):
        f = repo.func(qual)
        g = CFG(f.node, exc_edges=True)
        acquires = []
        parents = {}
        for st in body_walk(f.node):
            if isinstance(st, ast.stmt):
                for ch in ast.iter_child_nodes(st):
                    if isinstance(ch, ast.Call):
                        parents[id(ch)] = st
        for n in body_walk(f.node):
            if isinstance(n, ast.Call):
                q = repo.resolve_expr(f.module, n.func, set(f.params())) or ""
                name = acquire_fn(f, n, q, parents)
                if name is not None:
                    acquires.append((n, name))
        if not acquires:
            raise AnalysisError(f"{qual}: no temporary artefact creation found (anchor vanished)")
        seen_names = set()
        for call, name in acquires:
            if name in seen_names:
                continue
            seen_names.add(name)
            rel_ids = set()
            from ..cfg import own_exprs

            def releases(stmts, var) -> bool:
                """Do these statements (possibly under an `if os.path.exists(var)` guard) release `var`?"""
                for st in stmts:
                    for c in ast.walk(st):
                        if isinstance(c, ast.Call):
                            q = repo.resolve_expr(f.module, c.func, set(f.params())) or ""
                            if release_pred(c, q, var):
                                return True
                return False

            for nd in g.nodes:
                if nd.ast is None or nd.kind == "branch":
                    continue
                for part in own_exprs(nd.ast):
                    for c in ast.walk(part):
                        if isinstance(c, ast.Call):
                            q = repo.resolve_expr(f.module, c.func, set(f.params())) or ""
                            if release_pred(c, q, name):
                                rel_ids.add(nd.id)
                # `for x in (a, b): [if os.path.exists(x):] os.remove(x)` releases every listed name
                if nd.kind == "for" and isinstance(nd.ast.iter, (ast.Tuple, ast.List)) and isinstance(nd.ast.target, ast.Name):
                    if any(dotted(e) == name for e in nd.ast.iter.elts) and releases(nd.ast.body, nd.ast.target.id):
                        rel_ids.add(nd.id)
            # `if os.path.exists(name): os.remove(name)`: the test is the release point (nothing to remove otherwise)
            for st in ast.walk(f.node):
                if isinstance(st, ast.If) and isinstance(st.test, ast.Call) and (repo.resolve_expr(f.module, st.test.func) or "") in ("os.path.exists", "os.path.isfile", "os.path.isdir", "os.path.lexists") and st.test.args and (dotted(st.test.args[0]) == name or (isinstance(st.test.args[0], ast.Constant) and st.test.args[0].value == name)) and releases(st.body, name):
                    for tn in g.nodes:
                        if tn.kind == "test" and tn.ast is st.test:
                            rel_ids.add(tn.id)
            an = g.node_of(call)
            # successors of the acquire (it has happened) -> any exit without a release?
            starts = [m for m, lab in g.succ[an.id] if lab != "exc"]
            bad_path = None
            for s0 in starts:
                if s0 in rel_ids:
                    continue
                if s0 in (g.exit, g.raise_exit):
                    bad_path = [an.id, s0]
                    break
                # exceptions raised by the clean-up code itself (statements inside a finally body) are not pursued
                p = g.paths_avoiding(s0, lambda x: x.id in (g.exit, g.raise_exit), lambda x: x.id in rel_ids, skip_edge=lambda a, b, lab: lab == "exc" and bool(a.copy))
                if p is not None:
                    bad_path = [an.id] + p
                    break
            if bad_path is None:
                rep.ok("C17.cleanup", qual, f"{what} `{name}` is removed on every exit (normal and exceptional) after it was created", f"{f.file}:{call.lineno}")
            else:
                end = g.nodes[bad_path[-1]]
                via = next((g.nodes[x] for x in bad_path[1:] if g.nodes[x].kind in ("stmt", "test") and g.nodes[x].ast is not None), None)
                rep.bad(
                    "C17.cleanup",
                    qual,
                    f"leaks:{name}",
                    f"{what} `{name}` (created at line {call.lineno}) is not removed when the function is left by {'an exception' if end.kind == 'raise_exit' else 'a return'}"
                    + (f" (e.g. raised at line {via.line}: `{src(via.ast, 70)}`)" if via is not None and end.kind == "raise_exit" else "")
                    + ": it stays behind in the working directory",
                    f.file,
                    call.lineno,
                )


# ------------------------------------------------------------------------------------------------------------------------
# C17.legacy-pickle: what "is a valid pickle" answers for the files torch's legacy (non-zip) save writes
# ------------------------------------------------------------------------------------------------------------------------
# torch's legacy format is a *stack* of pickles: the magic number, the protocol version, sys_info, the object, the storage
# keys.  With pickle_protocol >= 2 the magic-number pickle is PROTO LONG1 STOP (3 opcodes); with pickle_protocol 0 or 1 there
# is no PROTO opcode and it is LONG STOP (2 opcodes).  The opcode counts below are those facts, nothing else about the bytes
# is modelled: the file is an abstract stream of pickles with a read position.
LEGACY_WORLDS = [
    ("legacy-save-protocol-2", [3, 3, 20, 50, 5], True),
    ("legacy-save-protocol-0", [2, 2, 20, 50, 5], True),
    ("legacy-save-protocol-4-framed", [4, 4, 22, 60, 6], True),
    ("not-a-pickle", ["junk"], False),
    ("empty-file", [], False),
]


def _pickle_stream_world(repo: Repo, pickles, log):
    from ..minieval import PyIter, PyRaise, Record

    stream = Record("file", {"pos": 0})
    stream.fields["()seek"] = lambda off, whence=0: stream.fields.__setitem__("pos", 0 if (off, whence) == (0, 0) else stream.fields["pos"]) or stream.fields["pos"]
    stream.fields["()tell"] = lambda: stream.fields["pos"]
    stream.fields["()seekable"] = lambda: True
    stream.fields["()readable"] = lambda: True
    pk = repo.cls("fickling.fickle.Pickled")
    opc = pk.method("opcodes") if pk is not None else None

    def load_one(src_, *_extra, **_kw):  # further arguments (caches, options) do not change which pickle is read next
        if src_ is not stream:
            raise PyRaise("TypeError")
        i = stream.fields["pos"]
        if i >= len(pickles):
            raise PyRaise("EmptyPickleError")
        if pickles[i] == "junk":
            raise PyRaise("ValueError")
        stream.fields["pos"] = i + 1
        log.append(("parsed", i))
        n = pickles[i]
        ops = [Record("Opcode", {"name": f"OP{j}"}) for j in range(n - 1)] + [Record("Opcode", {"name": "STOP"})]
        p = Record("Pickled", {"__len__": n, "_opcodes": ops})
        p.fields["__iter__"] = lambda _o=ops: list(_o)
        p.fields["__getitem__"] = lambda ix, _o=ops: _o[ix]
        if opc is not None and opc.kind == "property":
            p.fields["opcodes"] = PyIter(iter(ops), "iter")  # what the property returns: iter(self)
        elif opc is not None:
            p.fields["()opcodes"] = lambda _o=ops: PyIter(iter(_o), "iter")

        def fallback(attr, _p=p):
            # any other property of Pickled: its own body, interpreted on this abstract pickle
            from ..minieval import Evaluator, Unsupported

            for k in repo.mro_classes(pk):
                for fn in k.methods.get(attr, []):
                    if fn.kind == "property":
                        return Evaluator({fn.params()[0]: _p}).run_body(fn.node.body)
            raise Unsupported(f"attribute .{attr} of the abstract Pickled")

        p.fields["__getattr__"] = fallback
        return p

    return stream, load_one


def check_legacy_pickle(repo: Repo, rep: Report):
    """Interprets check_pickle (and StackedPickle.load under it) over abstract pickle streams."""
    from ..minieval import _EXC_PARENT, _MISSING, Evaluator, PyRaise, Record, Unsupported

    rule = "C17.legacy-pickle"
    f = repo.functions.get(f"{PG}.check_pickle")
    ffp = repo.functions.get(f"{PG}.find_file_properties")
    if f is None or ffp is None:
        raise AnalysisError("polyglot.check_pickle / find_file_properties not found")
    # exception classes of the repo, for `except EmptyPickleError`-style handlers
    for c in repo.classes.values():
        if c.module.name == "fickling.fickle" and c.name.endswith("Error") and c.node.bases:
            b = dotted(c.node.bases[0]) or ""
            _EXC_PARENT.setdefault(c.name, b.split(".")[-1])
    # the arguments identification passes
    sites = [c for c in body_walk(ffp.node) if isinstance(c, ast.Call) and (dotted(c.func) or "").split(".")[-1] == "check_pickle"]
    if not sites:
        rep.bad(rule, ffp.qualname, "no-pickle-probe", "find_file_properties no longer probes the file with check_pickle: the `is_valid_pickle` fact the legacy row depends on has no source", ffp.file, ffp.line)
        return
    params = [a.arg for a in f.node.args.args]
    defaults = dict(zip(params[len(params) - len(f.node.args.defaults):], f.node.args.defaults))
    stacked = repo.cls("fickling.fickle.StackedPickle")
    sload = stacked.method("load") if stacked is not None else None
    n_worlds = 0
    for call in sites:
        for label, pickles, expected in LEGACY_WORLDS:
            log: list = []
            stream, load_one = _pickle_stream_world(repo, pickles, log)
            env = {}
            try:
                for name, d in defaults.items():
                    env[name] = ast.literal_eval(d)
                for name, a in zip(params[1:], call.args[1:]):
                    env[name] = ast.literal_eval(a)
                for k in call.keywords:
                    env[k.arg] = ast.literal_eval(k.value)
            except Exception:
                raise AnalysisError(f"{ffp.qualname}: check_pickle is called with a non-constant argument: {src(call)}")
            env[params[0]] = stream

            def hook(name, args, kw, ev, _load=load_one, _stream=stream):
                last = name.split(".")[-1]
                if name in ("Pickled.load", "fickle.Pickled.load", "fickling.fickle.Pickled.load"):
                    return _load(*args)
                if name in ("Pickled.make_stream", "fickle.Pickled.make_stream"):
                    return args[0]
                if name in ("StackedPickle.load", "fickle.StackedPickle.load") and sload is not None:
                    sub = ev.child({sload.node.args.args[0].arg: args[0]})
                    return sub.run_body(sload.node.body)
                if name == "StackedPickle":
                    return Record("StackedPickle", {"pickles": args[0], "__len__": len(args[0])})
                if name.endswith("Error") and name[:1].isupper():
                    return Record("exc", {"name": name})
                return _MISSING

            ev = Evaluator(env, call_hook=hook)
            try:
                got = ev.run_body(f.node.body)
            except Unsupported as e:
                raise AnalysisError(f"check_pickle: cannot interpret over the abstract pickle stream ({label}): {e}")
            except PyRaise as pe:
                got = f"raises {pe.name}"
            n_worlds += 1
            if got is not expected and not (isinstance(got, bool) and got == expected):
                what = (
                    "a file written by torch's legacy save is no longer reported as a valid pickle, so it is not identified as PyTorch v0.1.10"
                    if expected
                    else "a file that contains no pickle at all is reported as a valid pickle, so it is identified as PyTorch v0.1.10"
                )
                rep.bad(rule, f.qualname, f"{label}:{got}", f"check_pickle({src(call).split('(', 1)[1]} over a stream of pickles with opcode counts {pickles} answers {got!r}, expected {expected}: {what}", f.file, f.line)
    rep.ok(rule, f.qualname, f"{len(sites)} probe site(s) x {len(LEGACY_WORLDS)} abstract files interpreted: legacy stacks (first pickle 2, 3 or 4 opcodes) are valid, files with no pickle are not", "", nontrivial=True)


# ------------------------------------------------------------------------------------------------------------------------
# C17.table-worlds: identification interpreted end to end over abstract files
# ------------------------------------------------------------------------------------------------------------------------
EXTRA_NAMES = {"legacy-tar": "PyTorch v0.1.1", "pickle": "PyTorch v0.1.10", "mar": "PyTorch model archive format"}
ALWAYS_MEMBERS = ["byteorder", "data/0", "data/1", ".data/serialization_id"]
MAR_MEMBERS = ["MAR-INF/MANIFEST.json", "handler.py", "weights.pth"]


def _bind(f: FuncInfo, args, kw):
    params = [a.arg for a in f.node.args.args]
    env = {}
    ds = f.node.args.defaults
    for name, d in zip(params[len(params) - len(ds):], ds):
        env[name] = ast.literal_eval(d)
    for name, a in zip(params, args):
        env[name] = a
    for k, v in kw.items():
        if k not in params:
            raise AnalysisError(f"{f.qualname}: unexpected keyword {k}")
        env[k] = v
    missing = [p_ for p_ in params if p_ not in env]
    if missing:
        raise AnalysisError(f"{f.qualname}: called without {missing}")
    return env


def _file_worlds(tier: str):
    import itertools

    subsets = [tuple(m for m, bit in zip(DOC_MARKERS, bits) if bit) for bits in itertools.product((0, 1), repeat=5)]
    # (torch names the folder inside the archive after the file: `.ckpt.pt` gives `.ckpt/...`, a dot-prefixed folder)
    placements = ["", "archive/", ".ckpt/"] + (["model/sub/"] if tier == "thorough" else [])
    for tar in ("no", "legacy-tar", "other-tar"):
        for pk in (False, True):
            for mar in (False, True):
                for sub in subsets:
                    for pl in placements:
                        names = [pl + m for m in sub] + [("archive/" if not pl else pl) + m for m in ALWAYS_MEMBERS] + (MAR_MEMBERS if mar else [])
                        # what the version record says is not part of the documented table: any value torch accepts
                        for vtext in ((b"3\n", b"10\n") if ("version" in sub and tar == "no" and not pk and not mar) else (b"3\n",)):
                            yield {"torch_zip": True, "std_zip": True, "tar": tar, "pickle": pk, "mar": mar, "subset": sub, "names": names, "version_text": vtext, "label": f"torch-zip markers={list(sub)} at '{pl}'" + (f", version record {vtext!r}" if vtext != b"3\n" else "")}
                # a zip that torch's reader does not accept (not at offset 0): never classified from the table
                yield {"torch_zip": False, "std_zip": True, "tar": tar, "pickle": pk, "mar": mar, "subset": (), "names": ["archive/" + m for m in DOC_MARKERS] + (MAR_MEMBERS if mar else []), "label": "zip with leading junk (all five markers present)"}
            yield {"torch_zip": False, "std_zip": False, "tar": tar, "pickle": pk, "mar": False, "subset": (), "names": None, "label": "not a zip"}


def check_table_worlds(repo: Repo, rep: Report, tier: str):
    from ..minieval import _MISSING, Evaluator, PyRaise, Record, Unsupported

    rule = "C17.table-worlds"
    root = repo.func(f"{PG}.identify_pytorch_file_format")
    table_names = [n for _, n in DOC_TABLE]
    n_worlds = 0
    deviations: Dict[str, Tuple[int, str]] = {}

    def note(kind, msg):
        c, m = deviations.get(kind, (0, msg))
        deviations[kind] = (c + 1, m)

    for w in _file_worlds(tier):
        opened: List[tuple] = []
        fobj = Record("file", {"name": "FILE"})
        fobj.fields["()seek"] = lambda *a, **k: 0
        fobj.fields["()tell"] = lambda: 0
        fobj.fields["()read"] = lambda *a, **k: b""
        fobj.fields["()close"] = lambda: None

        def zip_of(path, mode="r", *a, _w=w, **k):
            opened.append(("zip", mode))
            if _w["names"] is None:
                raise PyRaise("BadZipFile")
            z = Record("ZipFile", {})
            z.fields["()namelist"] = lambda: list(_w["names"])
            z.fields["()infolist"] = lambda: [Record("ZipInfo", {"filename": n}) for n in _w["names"]]
            z.fields["()close"] = lambda: None

            def content(name, *a_, **k_):
                nm = name.fields["filename"] if isinstance(name, Record) else name
                if nm not in _w["names"]:
                    raise PyRaise("KeyError")
                return _w.get("version_text", b"3\n") if nm.split("/")[-1] == "version" else b"little" if nm.endswith("byteorder") else b"\x80\x02}."

            z.fields["()read"] = content
            z.fields["()open"] = lambda name, *a_, **k_: __import__("io").BytesIO(content(name))
            return z

        special = {
            "open": lambda path, mode="r", *a, **k: opened.append(("open", mode)) or fobj,
            "_is_zipfile": lambda f_: w["torch_zip"],
            "torch.serialization._is_zipfile": lambda f_: w["torch_zip"],
            "tarfile.is_tarfile": lambda f_: w["tar"] != "no",
            "zipfile.is_zipfile": lambda f_: w["std_zip"],
            "zipfile.ZipFile": zip_of,
            "check_pickle": lambda *a, **k: w["pickle"],
            "check_numpy": lambda *a, **k: (False, False),
            "check_if_legacy_format": lambda *a, **k: w["tar"] == "legacy-tar",
        }

        def hook(name, args, kw, ev):
            if name in special:
                return special[name](*args, **kw)
            g = repo.functions.get(f"{PG}.{name}")
            if g is not None and g.cls is None and g.parent is None:
                sub = ev.child(_bind(g, args, kw))
                return sub.run_body(g.node.body)
            return _MISSING

        ev = Evaluator(_bind(root, ["FILE"], {}), call_hook=hook)
        n_worlds += 1
        desc = f"{w['label']}; tar={w['tar']}, stacked-pickle={w['pickle']}, model-archive members={w['mar']}"
        try:
            got = ev.run_body(root.node.body)
        except Unsupported as e:
            raise AnalysisError(f"identify_pytorch_file_format: cannot interpret over the abstract file ({desc}): {e}")
        except PyRaise as pe:
            note(f"raises:{pe.name}", f"identification raises {pe.name} for: {desc}")
            continue
        if not isinstance(got, list) or not all(isinstance(x, str) for x in got):
            note("result-type", f"identification returns {got!r} (not a list of format names) for: {desc}")
            continue
        exp_table = [n for keys, n in DOC_TABLE if all(k[len("has_"):].replace("_", ".") in w["subset"] for k in keys)] if w["torch_zip"] else []
        exp_extra = set()
        if w["tar"] == "legacy-tar":
            exp_extra.add(EXTRA_NAMES["legacy-tar"])
        if w["pickle"]:
            exp_extra.add(EXTRA_NAMES["pickle"])
        if w["std_zip"] and w["mar"]:
            exp_extra.add(EXTRA_NAMES["mar"])
        got_table = [x for x in got if x in table_names]
        got_extra = [x for x in got if x not in table_names]
        if len(set(got)) != len(got):
            note("duplicate-format", f"{got} names a format twice for: {desc}")
        for nme in exp_table:
            if nme not in got_table:
                note(f"row-missing:{nme}", f"the documented row for '{nme}' matches but the answer is {got}: {desc}")
        for nme in got_table:
            if nme not in exp_table:
                note(f"row-spurious:{nme}", f"'{nme}' is reported although its documented row does not match ({got}): {desc}")
        if sorted(got_table) == sorted(exp_table) and got_table != exp_table:
            note("row-order", f"answer {got_table} is not in the documented precedence {exp_table}: {desc}")
        if got_table and got[: len(got_table)] != got_table:
            note("table-not-first", f"the table's formats do not come first in {got}: {desc}")
        for nme in exp_extra - set(got_extra):
            note(f"format-missing:{nme}", f"'{nme}' is not reported ({got}): {desc}")
        for nme in set(got_extra) - exp_extra:
            note(f"format-spurious:{nme}", f"'{nme}' is reported without its evidence ({got}): {desc}")
        for kind, mode in opened:
            if any(ch in str(mode) for ch in "wax+"):
                note(f"opened-for-writing:{mode}", f"identification opens the file with mode {mode!r}: {desc}")
    for kind, (c, m) in sorted(deviations.items()):
        rep.bad(rule, root.qualname, kind, f"{m} [{c} of {n_worlds} abstract files]", root.file, root.line)
    rep.ok(rule, root.qualname, f"{n_worlds} abstract files (32 marker subsets x placement x torch-zip / displaced zip / no zip x tar x stacked pickle x model-archive members) interpreted through identify_pytorch_file_format, find_file_properties and the helpers they call; answers compared with the documented table", "", nontrivial=True)


def check_pickle_probe_on_bytes(repo: Repo, rep: Report):
    """`check_pickle` (the evidence behind the 'legacy pickle' answer) interpreted by sa.objeval over real bytes: what torch's
    legacy save writes - a stack of pickles - alone, and followed by what the documented polyglots put after it (a zip archive,
    a tar block, text).  A file that starts with a complete pickle is pickle evidence whatever follows; a file that does not
    start with one is not."""
    import io
    import pickle
    import zipfile

    from ..minieval import PyRaise, Unsupported
    from .c06 import _fresh_objeval

    rule = "C17.legacy-pickle"
    f = repo.functions.get(f"{PG}.check_pickle")
    if f is None:
        raise AnalysisError("fickling.polyglot.check_pickle not found")
    zbuf = io.BytesIO()
    with zipfile.ZipFile(zbuf, "w") as z:
        z.writestr("model/data.pkl", b"\x80\x02}.")
        z.writestr("model/version", b"3\n")
    tails = [("nothing", b""), ("a zip archive (PK\\x03\\x04 ...: `P` is also the PERSID opcode)", zbuf.getvalue()), ("a zip end-of-central-directory record", b"PK\x05\x06" + b"\x00" * 18), ("a tar block of zeros", b"\x00" * 512), ("text", b"# not a pickle\n")]
    stacks = [("torch legacy save, protocol 2", [pickle.dumps(x, 2) for x in (0x1950A86A20F9469CFC6C, 1001, {"protocol_version": 1001}, {"w": [1.5]}, ["0"])]), ("torch legacy save, protocol 0", [pickle.dumps(x, 0) for x in (0x1950A86A20F9469CFC6C, 1001, {"w": [15]})]), ("torch legacy save, protocol 4 (framed)", [pickle.dumps(x, 4) for x in (0x1950A86A20F9469CFC6C, 1001, {"w": [1.5]}, ["0"])])]
    n = 0
    for slabel, parts in stacks:
        for tlabel, tail in tails:
            oe = _fresh_objeval(repo)
            try:
                got = oe.module_global(repo.modules[PG], "check_pickle")(io.BytesIO(b"".join(parts) + tail))
            except Unsupported as e:
                raise AnalysisError(f"check_pickle: cannot interpret over {slabel} followed by {tlabel}: {e}")
            except PyRaise as pe:
                got = f"raises {pe.name}"
            n += 1
            if got is not True:
                rep.bad(rule, f.qualname, f"pickle-not-recognised:followed-by:{tlabel.split(' (')[0]}", f"check_pickle answers {got!r} for {slabel} followed by {tlabel}: the file starts with complete pickles, so the pickle evidence (and with it the legacy / polyglot identification) is lost", f.file, f.line)
    for tlabel, data in (("a zip archive", zbuf.getvalue()), ("text", b"# not a pickle\n"), ("an empty file", b"")):
        oe = _fresh_objeval(repo)
        try:
            got = oe.module_global(repo.modules[PG], "check_pickle")(io.BytesIO(data))
        except Unsupported as e:
            raise AnalysisError(f"check_pickle: cannot interpret over {tlabel}: {e}")
        except PyRaise as pe:
            got = f"raises {pe.name}"
        n += 1
        if got is not False:
            rep.bad(rule, f.qualname, f"non-pickle-recognised:{tlabel}", f"check_pickle answers {got!r} for {tlabel}, which does not start with a pickle", f.file, f.line)
    rep.ok(rule, f.qualname, f"{n} byte streams (legacy stacks at protocols 0 / 2 / 4; alone and followed by a zip archive, a zip end record, a tar block, text; and three non-pickles) through the interpreted check_pickle", f"{f.file}:{f.line}")


def run(rep: Report, tier: str):
    repo = load_repo()
    rep.explanation = (
        "Reachability/effect analysis from identify_pytorch_file_format (read modes, no write/extract/rename, no module-level "
        "state, no non-determinism); literal comparison of the decision table and marker list with the documented ones plus the "
        "shape of the construction; def-use of create_polyglot's input paths; acquire/release pairing of temporary artefacts over "
        "a CFG with exceptional edges. Agreement with torch's own acceptance on real files, and that a successful polyglot is "
        "identified as both formats, are behaviours of third-party parsers on data and are not decided."
    )
    rep.rule("C17.read-only", "identification opens read-only, writes nothing, keeps no state, has no non-determinism source", 7)
    rep.rule("C17.table-floor", "the literal decision table is the documented one and has the v1.3 floor row", 0)
    rep.rule("C17.inputs-untouched", "input paths are only copy sources; builders write to temp copies / the output", 2)
    rep.rule("C17.cleanup", "temporary artefacts are removed on every exit of the creating function", 3)
    rep.rule("C17.table-worlds", "identification, interpreted end to end over abstract files, answers what the documented table says", 1)
    rep.rule("C17.legacy-pickle", "the pickle probe answers yes for the stacks torch's legacy save writes (any protocol) and no for files without a pickle", 1)
    check_read_only(repo, rep)
    check_legacy_pickle(repo, rep)
    check_table_worlds(repo, rep, tier)
    check_table(repo, rep)
    check_inputs(repo, rep)
    check_cleanup(repo, rep)
    check_pickle_probe_on_bytes(repo, rep)  # interpretive: last
