"""C17 -- format identification follows the documented table and is read-only.

* C17.read-only       from identify_pytorch_file_format no reachable operation writes, extracts, renames, removes or
                      links; every open of the examined file has a literal read mode; nothing reachable is a source of
                      non-determinism or keeps per-path state between calls.
* C17.table-floor     for torch zips the answer is built from *all* rows of the documented decision table that match
                      (one comprehension, no break, no later filtering), the table is the documented one in the
                      documented order, the marker list is the documented five, and the row whose only key is
                      `has_data_pkl` names "PyTorch v1.3".
* C17.inputs-untouched create_polyglot uses its two input paths only as the *source* of a content copy (and for
                      basename); every write targets the temp copies or the output name.
* C17.cleanup         every temporary artefact the polyglot constructors create is removed on every exit of the
                      creating function, including the exceptional one (acquire/release pairing over a CFG with
                      exceptional edges).
"""

from __future__ import annotations

import ast
from typing import Dict, List, Optional, Set, Tuple

from ..callgraph import CallGraph
from ..cfg import CFG
from ..effects import classify_external, classify_method, open_mode
from ..model import FuncInfo, Repo, dotted, load_repo
from ..report import AnalysisError, Report
from ..util import canon_func, MUTATORS, base_of, body_walk, kwarg, src, store_targets

PG = "fickling.polyglot"
DOC_TABLE = [
    (["has_data_pkl", "has_constants_pkl", "has_version"], "TorchScript v1.4"),
    (["has_data_pkl", "has_constants_pkl"], "TorchScript v1.3"),
    (["has_model_json", "has_constants_pkl"], "TorchScript v1.0"),
    (["has_model_json", "has_attributes_pkl"], "TorchScript v1.1"),
    (["has_data_pkl"], "PyTorch v1.3"),
]
DOC_MARKERS = ["data.pkl", "constants.pkl", "version", "model.json", "attributes.pkl"]
AUDITED_READERS = {
    "torch.serialization._is_zipfile": "reads the magic number at offset 0 of an open file",
    "numpy.lib.format.read_magic": "reads the 8-byte numpy magic",
    "numpy.lib.format.descr_to_dtype": "builds a dtype from the parsed header",
    "numpy.lib.format._header_size_info.get": "table lookup",
    "zipfile.ZipFile": "opened with a literal read mode (checked)",
    "zipfile.is_zipfile": "reads the central directory",
    "tarfile.is_tarfile": "reads the first header",
    "tarfile.open": "opened with a literal read mode (checked)",
    "tarfile.PAX_FORMAT": "constant",
    "ast.literal_eval": "parses a literal",
    "struct.calcsize": "pure",
    "struct.unpack": "pure",
}
NONDET = ("random.", "time.", "uuid.", "secrets.", "os.urandom", "datetime.", "os.getpid", "os.environ", "socket.", "tempfile.")


def check_read_only(repo: Repo, rep: Report):
    cg = CallGraph(repo)
    root = repo.func(f"{PG}.identify_pytorch_file_format")
    reached, parent, sites = cg.reachable([(root, None)])
    # Python pitfalls that make the answer depend on member ORDER rather than on which members exist
    from ..pitfalls import check_pitfalls

    check_pitfalls(repo, rep, "C17.table-floor", [f for f in reached.values() if f.module.name == PG])
    unaudited = []
    n_sites = 0
    for s in sites:
        f = s.func
        if not f.module.name.startswith("fickling"):
            continue
        n_sites += 1
        for q in s.externals:
            v = classify_external(q)
            if q in AUDITED_READERS:
                v = "inert"
            if any(q.startswith(p) for p in NONDET):
                rep.bad("C17.read-only", f.qualname, f"nondeterminism:{q}", f"`{src(s.node)}` ({q}) is reachable from format identification: the answer is no longer a function of the file's bytes alone", f.file, s.line, path=cg.path_to(parent, f.qualname))
                continue
            if q == "builtins.open" and isinstance(s.node, ast.Call):
                mode, lit = open_mode(s.node)
                v = "inert" if lit and not any(c in mode for c in "wax+") else "forbidden"
                q = f"builtins.open(mode={mode!r})" if lit else "builtins.open(<non-literal mode>)"
            if q in ("zipfile.ZipFile", "tarfile.open", "tarfile.TarFile") and isinstance(s.node, ast.Call):
                m = kwarg(s.node, "mode", 1)
                if m is None:
                    mode, lit = "r", True
                elif isinstance(m, ast.Constant):
                    mode, lit = str(m.value), True
                else:
                    mode, lit = None, False
                if not lit or any(c in mode for c in "wax+"):
                    v = "forbidden"
                    q = f"{q}(mode={mode!r})"
                else:
                    v = "inert"
            if v == "forbidden":
                rep.bad("C17.read-only", f.qualname, f"writes:{q}", f"`{src(s.node)}` ({q}) is reachable from identify_pytorch_file_format: identification is not read-only", f.file, s.line, path=cg.path_to(parent, f.qualname))
            elif v == "unaudited":
                unaudited.append(f"{q} at {f.file}:{s.line}")
        for qm in list(s.ext_methods) + [f"<untyped>.{m}" for m in s.untyped_methods]:
            name = qm.rsplit(".", 1)[1]
            v = classify_method(name)
            if qm.startswith("<untyped>") and s.targets and v != "forbidden":
                continue
            if qm.rsplit(".", 1)[0] in ("io.BytesIO", "io.StringIO", "BytesIO", "StringIO", "bytearray"):
                continue  # in-memory buffer
            if name in ("extract", "extractall", "write", "writestr", "writelines", "truncate", "unlink", "rename", "add", "remove") and not qm.split(".")[0] in ("list", "set", "dict", "List", "Set", "Dict"):
                if name in ("add", "remove") and not qm.startswith(("zipfile", "tarfile", "<untyped>")):
                    continue
                if name == "add" and isinstance(s.node, ast.Call) and isinstance(s.node.func, ast.Attribute) and (dotted(s.node.func.value) or "").endswith("entries"):
                    continue
                rep.bad("C17.read-only", f.qualname, f"writes:.{name}", f"`{src(s.node)}` is reachable from identify_pytorch_file_format: identification is not read-only", f.file, s.line, path=cg.path_to(parent, f.qualname))
            elif v == "unaudited" and name not in ("namelist", "getnames", "next", "extractfile", "hasobject", "issubset", "get", "decode", "groups", "opcodes", "infolist", "getmembers", "is_dir", "is_file", "isdir", "isfile", "isreg", "getinfo", "testzip"):
                unaudited.append(f"{qm} at {f.file}:{s.line}")
    if unaudited:
        raise AnalysisError("unaudited operation(s) on the identification path: " + "; ".join(sorted(set(unaudited))[:10]))
    # no state kept between calls
    for qn, f in reached.items():
        if f.module.name != PG:
            continue
        for d in getattr(f.node, "decorator_list", []):
            dn = dotted(d) or (dotted(d.func) if isinstance(d, ast.Call) else "") or ""
            if dn.split(".")[-1] in ("lru_cache", "cache"):
                rep.bad("C17.read-only", f.qualname, f"memoised:{dn}", f"{f.qualname} is memoised: a path whose content changed is answered from the earlier content", f.file, f.line)
        globs = {g for n in body_walk(f.node) if isinstance(n, ast.Global) for g in n.names}
        mod_names = set(f.module.assigns)
        local_assigned = {t.id for n in body_walk(f.node) if isinstance(n, (ast.Assign, ast.AnnAssign, ast.AugAssign, ast.For)) for t in store_targets(n) if isinstance(t, ast.Name)}
        for n in body_walk(f.node):
            if isinstance(n, (ast.Assign, ast.AugAssign, ast.Delete)):
                for t in store_targets(n):
                    b = base_of(t)
                    d = dotted(b) or ""
                    if (isinstance(t, ast.Name) and t.id in globs) or (d.split(".")[0] in mod_names and d.split(".")[0] not in local_assigned and d.split(".")[0] not in f.params() and (isinstance(t, ast.Subscript) or "." in d)):
                        rep.bad("C17.read-only", f.qualname, f"module-state:{d or t.id}", f"`{src(n)}` keeps state in a module-level object: identification depends on the call history (e.g. a per-path cache answers for bytes that have since changed)", f.file, n.lineno)
            if isinstance(n, ast.Call) and isinstance(n.func, ast.Attribute) and n.func.attr in MUTATORS:
                d = dotted(base_of(n.func.value)) or ""
                if d and d.split(".")[0] in mod_names and d.split(".")[0] not in local_assigned and d.split(".")[0] not in f.params():
                    rep.bad("C17.read-only", f.qualname, f"module-state:{d}", f"`{src(n)}` mutates a module-level object from the identification path", f.file, n.lineno)
    for qn, f in reached.items():
        if f.module.name == PG:
            rep.ok("C17.read-only", qn, "reached: opens read-only, no write/extract/rename, no module-level state", f"{f.file}:{f.line}")
    rep.units = {"reached_functions": len(reached), "call_sites": n_sites}
    if len([f for f in reached.values() if f.module.name == PG]) < 7:
        raise AnalysisError("fewer than 7 polyglot functions reached from identify_pytorch_file_format")


def _all_keys_hold(test: ast.AST, pname: str, keysvar: str) -> bool:
    """`all(<props>[k] for k in <keys>)` for any spelling of the bound variable k."""
    if not (isinstance(test, ast.Call) and dotted(test.func) == "all" and len(test.args) == 1 and isinstance(test.args[0], (ast.GeneratorExp, ast.ListComp))):
        return False
    ge = test.args[0]
    if len(ge.generators) != 1 or ge.generators[0].ifs or not isinstance(ge.generators[0].target, ast.Name) or dotted(ge.generators[0].iter) != keysvar:
        return False
    k = ge.generators[0].target.id
    e = ge.elt
    return isinstance(e, ast.Subscript) and dotted(e.value) == pname and isinstance(e.slice, ast.Name) and e.slice.id == k


def check_table(repo: Repo, rep: Report):
    f = repo.func(f"{PG}.identify_pytorch_file_format")
    # the dict of file properties, whatever the local is called: bound from find_file_properties(...)
    pn = [t.id for n in body_walk(f.node) if isinstance(n, ast.Assign) and isinstance(n.value, ast.Call) and (dotted(n.value.func) or "").split(".")[-1] == "find_file_properties" for t in n.targets if isinstance(t, ast.Name)]
    if len(pn) == 1:
        f = canon_func(f, rename={pn[0]: "properties"})
    file = f.file
    tables = [n for n in body_walk(f.node) if isinstance(n, ast.Assign) and isinstance(n.value, (ast.List, ast.Tuple)) and n.value.elts and all(isinstance(e, ast.Tuple) and len(e.elts) == 2 for e in n.value.elts)]
    if len(tables) != 1:
        raise AnalysisError("identify_pytorch_file_format: decision table literal not found")
    tnode = tables[0]
    tname = tnode.targets[0].id
    try:
        table = ast.literal_eval(tnode.value)
    except Exception:
        raise AnalysisError("decision table is not a literal")
    table = [(list(k), v) for k, v in table]
    if table == DOC_TABLE:
        rep.ok("C17.table-floor", f.qualname, "decision table equals the documented five rows in the documented order", f"{file}:{tnode.lineno}")
    else:
        missing = [r for r in DOC_TABLE if r not in table]
        extra = [r for r in table if r not in DOC_TABLE]
        what = f"missing rows {missing}; " if missing else ""
        what += f"unexpected rows {extra}; " if extra else ""
        if not missing and not extra:
            what = f"row order {[v for _, v in table]} differs from the documented precedence {[v for _, v in DOC_TABLE]}"
        rep.bad("C17.table-floor", f.qualname, "table-differs", f"the decision table deviates from the documented one: {what}", file, tnode.lineno)
    floor = [r for r in table if r[0] == ["has_data_pkl"]]
    if floor and floor[0][1] == "PyTorch v1.3":
        rep.ok("C17.table-floor", f.qualname, "row (has_data_pkl) -> 'PyTorch v1.3': anything torch's zip reader accepts is reported at least as v1.3", f"{file}:{tnode.lineno}")
    else:
        rep.bad("C17.table-floor", f.qualname, "no-v1.3-floor", "no row whose only key is has_data_pkl names 'PyTorch v1.3'", file, tnode.lineno)
    # construction: formats = [name for keys, name in table if all(properties[key] for key in keys)]
    builds = [n for n in body_walk(f.node) if isinstance(n, ast.Assign) and isinstance(n.value, ast.ListComp) and dotted(n.value.generators[0].iter) == tname]
    if len(builds) != 1:
        # a loop form
        loops = [n for n in body_walk(f.node) if isinstance(n, ast.For) and dotted(n.iter) == tname]
        if len(loops) == 1 and not any(isinstance(x, (ast.Break, ast.Return, ast.Continue)) for x in ast.walk(loops[0])):
            rep.ok("C17.table-floor", f.qualname, "all rows examined by a loop without break", f"{file}:{loops[0].lineno}")
            fname = "formats"
        else:
            rep.bad("C17.table-floor", f.qualname, "not-all-rows", "the result is not built from all matching rows of the table (comprehension / loop without break not found)", file, tnode.lineno)
            return
    else:
        b = builds[0]
        comp = b.value
        g = comp.generators[0]
        fname = b.targets[0].id
        ok = len(comp.generators) == 1 and len(g.ifs) == 1 and isinstance(g.target, ast.Tuple) and len(g.target.elts) == 2 and all(isinstance(x, ast.Name) for x in g.target.elts) and dotted(comp.elt) == g.target.elts[1].id and _all_keys_hold(g.ifs[0], "properties", g.target.elts[0].id)
        if ok:
            rep.ok("C17.table-floor", f.qualname, "formats = every row (in table order) all of whose keys hold", f"{file}:{b.lineno}")
        else:
            rep.bad("C17.table-floor", f.qualname, "row-filter", f"the result comprehension is `{src(comp, 160)}`: not 'every row whose keys all hold, in table order'", file, b.lineno)
        # guarded only by is_torch_zip
        gg = CFG(f.node)
        node = gg.node_of(comp)
        conds = [src(gg.nodes[d].ast) for d in gg.dominators()[node.id] if gg.nodes[d].kind == "branch" and gg.nodes[d].value is True]
        if conds != ["properties['is_torch_zip']"]:
            rep.bad("C17.table-floor", f.qualname, "table-guard", f"the table is consulted under {conds}, not exactly `properties['is_torch_zip']`", file, b.lineno)
    # afterwards: formats only grows
    for n in body_walk(f.node):
        if isinstance(n, ast.Call) and isinstance(n.func, ast.Attribute) and dotted(n.func.value) == fname and n.func.attr in ("remove", "pop", "clear", "sort", "reverse", "insert", "__delitem__"):
            rep.bad("C17.table-floor", f.qualname, f"result-edited:{n.func.attr}", f"`{src(n)}` edits the list of matching formats after the table was applied: the documented table is no longer followed", file, n.lineno)
        if isinstance(n, (ast.Assign, ast.AugAssign, ast.Delete)) and n is not (builds[0] if builds else None):
            for t in store_targets(n):
                if dotted(base_of(t)) == fname and not (isinstance(n, ast.Assign) and isinstance(n.value, ast.List) and not n.value.elts):
                    rep.bad("C17.table-floor", f.qualname, "result-reassigned", f"`{src(n)}` rewrites the list of matching formats after the table was applied", file, n.lineno)
    rets = [n.value for n in body_walk(f.node) if isinstance(n, ast.Return)]
    if rets and all(dotted(r) == fname for r in rets):
        rep.ok("C17.table-floor", f.qualname, f"returns `{fname}` whole", f"{file}:{f.line}")
    else:
        rep.bad("C17.table-floor", f.qualname, "result-sliced", f"identify_pytorch_file_format returns {[src(r) for r in rets]}", file, f.line)
    # marker list and key derivation in find_file_properties
    fp = repo.func(f"{PG}.find_file_properties")
    lists = [n for n in body_walk(fp.node) if isinstance(n, ast.Assign) and isinstance(n.value, ast.List) and all(isinstance(e, ast.Constant) and isinstance(e.value, str) for e in n.value.elts) and n.value.elts]
    mk = [l for l in lists if [e.value for e in l.value.elts] == DOC_MARKERS]
    if mk:
        rep.ok("C17.table-floor", fp.qualname, f"marker members: {DOC_MARKERS}", f"{fp.file}:{mk[0].lineno}")
    else:
        rep.bad("C17.table-floor", fp.qualname, "marker-list", f"the marker member list is {[[e.value for e in l.value.elts] for l in lists]}, not the documented {DOC_MARKERS}", fp.file, fp.line)
    comps = [n for n in body_walk(fp.node) if isinstance(n, ast.DictComp)]
    okd = [
        c for c in comps
        if isinstance(c.key, ast.JoinedStr) and c.key.values and isinstance(c.key.values[0], ast.Constant) and c.key.values[0].value == "has_"
        and isinstance(c.generators[0].target, ast.Name) and any(isinstance(x, ast.Name) and x.id == c.generators[0].target.id for x in ast.walk(c.key))
        and isinstance(c.value, ast.Call) and dotted(c.value.func) == "check_and_find_in_zip" and not c.generators[0].ifs
        and len(c.value.args) >= 2 and dotted(c.value.args[1]) == c.generators[0].target.id
    ]
    if okd:
        rep.ok("C17.table-floor", fp.qualname, "has_<marker> = check_and_find_in_zip(file, marker) for every marker", f"{fp.file}:{okd[0].lineno}")
    else:
        rep.bad("C17.table-floor", fp.qualname, "marker-keys", "the has_<marker> properties are no longer derived uniformly from the marker list", fp.file, fp.line)


COPY_FUNCS = {"shutil.copy", "shutil.copyfile", "shutil.copy2"}
ALIASING = {"os.link", "os.symlink", "os.rename", "os.replace", "shutil.move", "os.renames"}


def check_inputs(repo: Repo, rep: Report):
    f = repo.func(f"{PG}.create_polyglot")
    ins = f.params()[:2]
    file = f.file
    uses = []
    parents: Dict[int, ast.AST] = {}
    for n in body_walk(f.node):
        for ch in ast.iter_child_nodes(n):
            parents[id(ch)] = n
    ok = True
    for n in body_walk(f.node):
        if isinstance(n, ast.Name) and n.id in ins and isinstance(n.ctx, ast.Load):
            p = parents.get(id(n))
            q = (repo.resolve_expr(f.module, p.func) if isinstance(p, ast.Call) else None) or ""
            if isinstance(p, ast.Call) and q in COPY_FUNCS and p.args and p.args[0] is n:
                uses.append("copy-source")
            elif isinstance(p, ast.Call) and q in ("os.path.basename", "os.fspath", "builtins.str"):
                uses.append("basename")
            else:
                ok = False
                extra = ""
                if isinstance(p, ast.Call) and (q in ALIASING or q.endswith(("link", "symlink", "rename", "move"))):
                    extra = ": the working 'copy' shares the input's storage, so appending to it modifies the caller's file"
                rep.bad("C17.inputs-untouched", f.qualname, f"input-used:{q or type(p).__name__}", f"input path `{n.id}` flows into `{src(p) if p is not None else n.id}` (not the source of a content copy / basename){extra}", file, n.lineno)
    # helper functions that receive an input path
    for n in body_walk(f.node):
        if isinstance(n, ast.Call):
            q = repo.resolve_expr(f.module, n.func, set(f.params())) or ""
            lk = repo.lookup(q)
            if isinstance(lk, FuncInfo) and any(isinstance(a, ast.Name) and a.id in ins for a in n.args):
                # the helper must itself be a pure content copy
                calls = [repo.resolve_expr(lk.module, c.func, set(lk.params())) or "" for c in body_walk(lk.node) if isinstance(c, ast.Call)]
                bad = [c for c in calls if c in ALIASING or c.split(".")[-1] in ("link", "symlink", "rename", "move", "replace")]
                if bad:
                    ok = False
                    rep.bad("C17.inputs-untouched", lk.qualname, f"input-aliased:{bad[0]}", f"{lk.qualname} receives an input path and calls {bad[0]}: the working file aliases the caller's file, so the append-based polyglot builders write through to it", lk.file, lk.line)
    if ok and uses.count("copy-source") >= 2:
        rep.ok("C17.inputs-untouched", f.qualname, f"`{ins[0]}` / `{ins[1]}` are used only as the source of shutil.copy and for basename ({len(uses)} uses)", f"{file}:{f.line}")
    elif ok:
        rep.bad("C17.inputs-untouched", f.qualname, "no-working-copies", "create_polyglot no longer makes content copies of both inputs before building", file, f.line)
    # writes of the builders target names derived from the temp copies / output name
    af = repo.func(f"{PG}.append_file")
    opens = [n for n in body_walk(af.node) if isinstance(n, ast.Call) and dotted(n.func) == "open"]
    modes = {dotted(o.args[0]): open_mode(o)[0] for o in opens if o.args}
    if modes.get(af.params()[0]) == "rb" and modes.get(af.params()[1]) == "ab":
        rep.ok("C17.inputs-untouched", af.qualname, "append_file reads its source ('rb') and appends to its destination ('ab')", f"{af.file}:{af.line}")
    else:
        rep.bad("C17.inputs-untouched", af.qualname, f"append-modes:{modes}", f"append_file opens {modes}", af.file, af.line)


def check_cleanup(repo: Repo, rep: Report):
    def acq_copy(f, c, q, parents):
        if len(c.args) == 2 and (dotted(c.args[1]) or "").startswith("temp_") and isinstance(c.args[0], ast.Name) and not q.startswith("os.path"):
            return dotted(c.args[1])
        return None

    def acq_extract(f, c, q, parents):
        if isinstance(c.func, ast.Attribute) and c.func.attr in ("extract", "extractall") and len(c.args) >= 2:
            if isinstance(c.args[1], ast.Constant):
                return c.args[1].value
            if dotted(c.args[1]):
                return dotted(c.args[1])
        if q in ("tempfile.mkdtemp", "tempfile.mkstemp", "tempfile.mktemp"):
            st = parents.get(id(c))
            if isinstance(st, ast.Assign) and len(st.targets) == 1 and isinstance(st.targets[0], ast.Name):
                return st.targets[0].id
            return "<unnamed temporary>"
        if q in ("os.mkdir", "os.makedirs") and c.args:
            return c.args[0].value if isinstance(c.args[0], ast.Constant) else dotted(c.args[0])
        return None

    def rel_rmtree(c, q, name):
        return q in ("shutil.rmtree",) and bool(c.args) and ((isinstance(c.args[0], ast.Constant) and c.args[0].value == name) or dotted(c.args[0]) == name)

    for qual, acquire_fn, release_pred, what in (
        (f"{PG}.create_polyglot", acq_copy, lambda c, q, name: q in ("os.remove", "os.unlink") and c.args and dotted(c.args[0]) == name, "temp copy"),
        (f"{PG}.create_standard_torchscript_polyglot", acq_extract, rel_rmtree, "extraction directory"),
    ):
        f = repo.func(qual)
        g = CFG(f.node, exc_edges=True)
        acquires = []
        parents = {}
        for st in body_walk(f.node):
            if isinstance(st, ast.stmt):
                for ch in ast.iter_child_nodes(st):
                    if isinstance(ch, ast.Call):
                        parents[id(ch)] = st
        for n in body_walk(f.node):
            if isinstance(n, ast.Call):
                q = repo.resolve_expr(f.module, n.func, set(f.params())) or ""
                name = acquire_fn(f, n, q, parents)
                if name is not None:
                    acquires.append((n, name))
        if not acquires:
            raise AnalysisError(f"{qual}: no temporary artefact creation found (anchor vanished)")
        seen_names = set()
        for call, name in acquires:
            if name in seen_names:
                continue
            seen_names.add(name)
            rel_ids = set()
            from ..cfg import own_exprs

            def releases(stmts, var) -> bool:
                """Do these statements (possibly under an `if os.path.exists(var)` guard) release `var`?"""
                for st in stmts:
                    for c in ast.walk(st):
                        if isinstance(c, ast.Call):
                            q = repo.resolve_expr(f.module, c.func, set(f.params())) or ""
                            if release_pred(c, q, var):
                                return True
                return False

            for nd in g.nodes:
                if nd.ast is None or nd.kind == "branch":
                    continue
                for part in own_exprs(nd.ast):
                    for c in ast.walk(part):
                        if isinstance(c, ast.Call):
                            q = repo.resolve_expr(f.module, c.func, set(f.params())) or ""
                            if release_pred(c, q, name):
                                rel_ids.add(nd.id)
                # `for x in (a, b): [if os.path.exists(x):] os.remove(x)` releases every listed name
                if nd.kind == "for" and isinstance(nd.ast.iter, (ast.Tuple, ast.List)) and isinstance(nd.ast.target, ast.Name):
                    if any(dotted(e) == name for e in nd.ast.iter.elts) and releases(nd.ast.body, nd.ast.target.id):
                        rel_ids.add(nd.id)
            # `if os.path.exists(name): os.remove(name)`: the test is the release point (nothing to remove otherwise)
            for st in ast.walk(f.node):
                if isinstance(st, ast.If) and isinstance(st.test, ast.Call) and (repo.resolve_expr(f.module, st.test.func) or "") in ("os.path.exists", "os.path.isfile", "os.path.isdir", "os.path.lexists") and st.test.args and (dotted(st.test.args[0]) == name or (isinstance(st.test.args[0], ast.Constant) and st.test.args[0].value == name)) and releases(st.body, name):
                    for tn in g.nodes:
                        if tn.kind == "test" and tn.ast is st.test:
                            rel_ids.add(tn.id)
            an = g.node_of(call)
            # successors of the acquire (it has happened) -> any exit without a release?
            starts = [m for m, lab in g.succ[an.id] if lab != "exc"]
            bad_path = None
            for s0 in starts:
                if s0 in rel_ids:
                    continue
                if s0 in (g.exit, g.raise_exit):
                    bad_path = [an.id, s0]
                    break
                # exceptions raised by the clean-up code itself (statements inside a finally body) are not pursued
                p = g.paths_avoiding(s0, lambda x: x.id in (g.exit, g.raise_exit), lambda x: x.id in rel_ids, skip_edge=lambda a, b, lab: lab == "exc" and bool(a.copy))
                if p is not None:
                    bad_path = [an.id] + p
                    break
            if bad_path is None:
                rep.ok("C17.cleanup", qual, f"{what} `{name}` is removed on every exit (normal and exceptional) after it was created", f"{f.file}:{call.lineno}")
            else:
                end = g.nodes[bad_path[-1]]
                via = next((g.nodes[x] for x in bad_path[1:] if g.nodes[x].kind in ("stmt", "test") and g.nodes[x].ast is not None), None)
                rep.bad(
                    "C17.cleanup",
                    qual,
                    f"leaks:{name}",
                    f"{what} `{name}` (created at line {call.lineno}) is not removed when the function is left by {'an exception' if end.kind == 'raise_exit' else 'a return'}"
                    + (f" (e.g. raised at line {via.line}: `{src(via.ast, 70)}`)" if via is not None and end.kind == "raise_exit" else "")
                    + ": it stays behind in the working directory",
                    f.file,
                    call.lineno,
                )


def run(rep: Report, tier: str):
    repo = load_repo()
    rep.explanation = (
        "Reachability/effect analysis from identify_pytorch_file_format (read modes, no write/extract/rename, no module-level "
        "state, no non-determinism); literal comparison of the decision table and marker list with the documented ones plus the "
        "shape of the construction; def-use of create_polyglot's input paths; acquire/release pairing of temporary artefacts over "
        "a CFG with exceptional edges. Agreement with torch's own acceptance on real files, and that a successful polyglot is "
        "identified as both formats, are behaviours of third-party parsers on data and are not decided."
    )
    rep.rule("C17.read-only", "identification opens read-only, writes nothing, keeps no state, has no non-determinism source", 7)
    rep.rule("C17.table-floor", "documented table, all matching rows in order, v1.3 floor row, documented markers", 6)
    rep.rule("C17.inputs-untouched", "input paths are only copy sources; builders write to temp copies / the output", 2)
    rep.rule("C17.cleanup", "temporary artefacts are removed on every exit of the creating function", 3)
    check_read_only(repo, rep)
    check_table(repo, rep)
    check_inputs(repo, rep)
    check_cleanup(repo, rep)
