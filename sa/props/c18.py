"""C18 -- CLI on stacked pickles: injection is local, decompilation is one valid program.

The two CLI arms are interpreted over finite abstract domains (the stacked pickles are opaque records whose
`dump` / injection / interpretation are recorded, not performed):

* C18.partition      for n = 1..3 stacked pickles, every target 0..n and every --run-last/--replace-result
                     combination the --inject arm emits exactly n pickles, all but the target verbatim and in order,
                     the target after exactly one injection with the requested flags; an out-of-range target
                     returns non-zero having emitted nothing.
* C18.range-guard    structurally: the first write to the output is dominated by the in-range edge of
                     `inject_target >= len(stacked)` (kept as a separate, readable rule).
* C18.var-threading  the decompile arm gives pickle i the first free variable id after pickles 0..i-1 (trace and
                     non-trace paths alike) and a result name that is distinct per pickle; Interpreter hands out
                     `_var{counter}` names from a counter that starts at first_variable_id and only grows, and STOP
                     binds the interpreter's result_variable.
"""

from __future__ import annotations

import ast
import itertools
from typing import Dict, List, Optional

from ..cfg import CFG
from ..minieval import _MISSING, Evaluator, PyRaise, Record, Unsupported
from ..model import FuncInfo, Repo, dotted, load_repo
from ..opsummary import all_summaries
from ..report import AnalysisError, Report
from ..util import cli_args_name, body_walk, cmp_normal, src
from ..vmvals import Fresh, Unknown
from .c10 import cli_arms

INJECTORS = {"insert_python_eval", "insert_python", "insert_python_exec", "append_python", "insert_function_call_on_unpickled_object"}


def _stacked_name(main: FuncInfo) -> str:
    for n in body_walk(main.node):
        if isinstance(n, ast.Assign) and isinstance(n.value, ast.Call) and (dotted(n.value.func) or "").endswith("StackedPickle.load") and isinstance(n.targets[0], ast.Name):
            return n.targets[0].id
    raise AnalysisError("cli.main: binding from StackedPickle.load not found")


def check_partition(repo: Repo, rep: Report, max_n: int = 3):
    main = repo.func("fickling.cli.main")
    arms = cli_arms(main)
    arm = arms["inject"]
    stacked = _stacked_name(main)
    file = main.file
    module_consts = {k: ast.literal_eval(v[0]) for k, v in main.module.assigns.items() if len(v) == 1 and isinstance(v[0], ast.Constant)}
    evaluations = 0
    problems: Dict[str, str] = {}
    for n in range(1, max_n + 1):
        for t in range(0, n + 2):
            for run_last, replace in itertools.product((False, True), repeat=2):
                log: List[tuple] = []
                stop = Record("Stop", {"info": Record("info", {"name": "STOP"})})

                def mk(i):
                    r = Record("Pickled", {"idx": i})
                    r.fields["()dump"] = lambda buf, _i=i: log.append(("dump", _i, buf.fields.get("id") if isinstance(buf, Record) else None)) or None
                    r.fields["()dumps"] = lambda _i=i: log.append(("dumps", _i)) or f"<bytes{_i}>"
                    for inj in INJECTORS:
                        r.fields["()" + inj] = (lambda *a, _i=i, _inj=inj, **kw: log.append(("inject", _i, _inj, a, tuple(sorted(kw.items())))) or None)
                    r.fields["__getitem__"] = lambda k: stop
                    return r

                pickles = [mk(i) for i in range(n)]
                outbuf = Record("file", {"id": "stdout.buffer"})
                outbuf.fields["()write"] = lambda data: log.append(("write", data)) or None
                stdout = Record("file", {"id": "stdout", "buffer": outbuf})
                stdout.fields["()write"] = lambda data: log.append(("write", data)) or None
                stderr = Record("file", {"id": "stderr"})
                stderr.fields["()write"] = lambda data: None
                fickle_ns = Record("module", {"Stop": "Stop"})

                def inst(v, cls):
                    if cls in ("fickle.Stop", "Stop"):
                        return isinstance(v, Record) and v.cls == "Stop"
                    return None

                def hook(name, args, kw, ev):
                    if name.split(".")[-1] in ("print",):
                        return None
                    return _MISSING

                env = {
                    stacked: pickles,
                    cli_args_name(main.node): Record("args", {"inject": "CODE", "inject_target": t, "run_last": run_last, "replace_result": replace, "check_safety": False, "trace": False, "create": None}),
                    "sys": Record("sys", {"stdout": stdout, "stderr": stderr}),
                    "fickle": fickle_ns,
                    **module_consts,
                }
                ev = Evaluator(env, isinstance_hook=inst, call_hook=hook)
                try:
                    code = ev.run_body(arm.body)
                except Unsupported as e:
                    raise AnalysisError(f"cli.main --inject arm: cannot interpret over the abstract stack domain (n={n}, target={t}): {e}")
                except PyRaise as pe:
                    code = "uncaught " + pe.name
                evaluations += 1
                emitted = [x for x in log if x[0] in ("dump", "dumps", "write")]
                injections = [x for x in log if x[0] == "inject"]
                case = f"n={n} target={t} run_last={run_last} replace={replace}"
                if t < n and isinstance(code, str):
                    problems.setdefault("in-range-raises", f"{case}: the arm raises {code}")
                    continue
                if t >= n:
                    nonzero = (isinstance(code, str) and code.startswith("uncaught")) or (isinstance(code, int) and not isinstance(code, bool) and code != 0) or code is True
                    if emitted:
                        problems.setdefault("out-of-range-emits", f"{case}: out-of-range target but {len(emitted)} pickle(s)/chunk(s) were already written to the output ({[e[:2] for e in emitted]})")
                    if not nonzero or (isinstance(code, str) and code.startswith("uncaught")):
                        problems.setdefault("out-of-range-status", f"{case}: out-of-range target ends with {code!r} instead of a clean non-zero status")
                    continue
                # expected event order
                want = []
                for i in range(n):
                    if i == t:
                        want.append(("inject", i))
                    want.append(("dump", i))
                got = [(x[0] if x[0] != "dumps" else "dump", x[1]) for x in log if x[0] in ("dump", "dumps", "inject")]
                if got != want:
                    problems.setdefault("partition", f"{case}: emitted/injected sequence {got}, expected {want} (each pickle once, in order, only the target injected, before it is dumped)")
                    continue
                inj = injections[0]
                kw = dict(inj[4])
                if inj[3][:1] != ("CODE",):
                    problems.setdefault("inject-args", f"{case}: injected code argument is {inj[3]!r}, not the --inject text")
                if inj[2] in ("insert_python_eval", "insert_python", "insert_python_exec"):
                    if kw.get("run_first", True) != (not run_last) or kw.get("use_output_as_unpickle_result", False) != replace:
                        problems.setdefault("inject-flags", f"{case}: injection flags {kw} do not correspond to --run-last={run_last} / --replace-result={replace}")
                bufs = {x[2] for x in log if x[0] == "dump"}
                if len(bufs) > 1:
                    problems.setdefault("buffers", f"{case}: pickles are written to different streams {bufs}")
                if not (code is None or code == 0 or code is False):
                    # the arm falls through to `return 0` at the end of main
                    problems.setdefault("status", f"{case}: in-range injection returns {code!r}")
    rep.extra["inject_arm_evaluations"] = evaluations
    for k, msg in problems.items():
        rep.bad("C18.partition", main.qualname, k, msg, file, arm.lineno)
    if not problems:
        rep.ok("C18.partition", main.qualname, f"--inject arm correct on all {evaluations} (n, target, flags) cases: n pickles out, only the target injected once with the requested flags, out-of-range -> non-zero and nothing written", f"{file}:{arm.lineno}")
    # after the arm, main returns 0
    rets = [n for n in main.node.body if isinstance(n, ast.Return)]
    if rets and isinstance(rets[-1].value, ast.Constant) and rets[-1].value.value == 0:
        rep.ok("C18.partition", main.qualname, "falls through to `return 0`", f"{file}:{rets[-1].lineno}")
    else:
        rep.bad("C18.partition", main.qualname, "final-status", "cli.main does not end with `return 0`", file, main.line)


def check_range_guard(repo: Repo, rep: Report):
    main = repo.func("fickling.cli.main")
    arm = cli_arms(main)["inject"]
    stacked = _stacked_name(main)
    g = CFG(main.node)
    writes = []
    for n in ast.walk(arm):
        if isinstance(n, ast.Call) and isinstance(n.func, ast.Attribute) and n.func.attr in ("dump", "write") and not (dotted(n.func.value) or "").startswith("sys.stderr"):
            writes.append(n)
    if not writes:
        raise AnalysisError("cli.main --inject arm: no output write found")
    guard = None
    for t in g.find(lambda n: n.kind == "test"):
        c = cmp_normal(t.ast)
        if c and dotted(c[0]) == f"{cli_args_name(main.node)}.inject_target" and isinstance(c[2], ast.Call) and dotted(c[2].func) == "len" and dotted(c[2].args[0]) == stacked:
            guard = (t, c[1])
    if guard is None:
        rep.bad("C18.range-guard", main.qualname, "no-guard", f"the --inject arm has no `args.inject_target >= len({stacked})` test before writing", main.file, arm.lineno)
        return
    t, op = guard
    if op not in (">=", "<"):
        rep.bad("C18.range-guard", main.qualname, f"guard-operator:{op}", f"range guard is `{src(t.ast)}` (normal form `inject_target {op} len(...)`): with `>` the target one past the end is accepted (off by one)", main.file, t.line)
        return
    in_range = next(n for n in g.nodes if n.kind == "branch" and n.test == t.id and n.value is (op == "<"))
    bad = []
    for w in writes:
        node = g.node_of(w)
        if node is not None and in_range.id not in g.dominators()[node.id]:
            bad.append(w)
    if bad:
        rep.bad("C18.range-guard", main.qualname, "write-before-guard", f"`{src(bad[0])}` (line {bad[0].lineno}) can execute without the in-range edge of `{src(t.ast)}`: output is produced before the target is known to exist", main.file, bad[0].lineno)
    else:
        rep.ok("C18.range-guard", main.qualname, f"all {len(writes)} output writes of the --inject arm are dominated by the in-range edge of `{src(t.ast)}`", f"{main.file}:{t.line}")


def check_var_threading(repo: Repo, rep: Report, max_n: int = 3):
    main = repo.func("fickling.cli.main")
    arms = cli_arms(main)
    body = arms["decompile_body"]
    stacked = _stacked_name(main)
    file = main.file
    counts = [3, 5, 7, 11, 13, 17, 19][:max(3, max_n)]
    problems: Dict[str, str] = {}
    evaluations = 0
    for n in range(1, max_n + 1):
        for trace in (False, True):
            created: List[dict] = []
            printed: List[str] = []

            def make_interp(pickled, first_variable_id=0, result_variable="result", **_other):  # the stand-in abstracts the counter only
                i = pickled.fields["idx"]
                rec = Record("Interpreter", {"idx": i, "first": first_variable_id, "result": result_variable, "next_variable_id": first_variable_id + counts[i], "ran": False})
                rec.fields["()to_ast"] = lambda _r=rec: _r.fields.__setitem__("ran", True) or Record("Module", {"__str__": f"<module {_r.fields['idx']}>"})
                created.append(rec.fields)
                return rec

            def make_trace(interp):
                tr = Record("Trace", {"interp": interp})
                tr.fields["()run"] = lambda _i=interp: _i.fields.__setitem__("ran", True) or Record("Module", {"__str__": f"<module {_i.fields['idx']}>"})
                return tr

            def hook(name, args, kw, ev):
                last = name.split(".")[-1]
                if last == "Interpreter":
                    return make_interp(*args, **kw)
                if last == "Trace":
                    return make_trace(*args, **kw)
                if last == "unparse":
                    return str(args[0].fields.get("__str__")) if isinstance(args[0], Record) else "<?>"
                if last == "print":
                    printed.append(args[0] if args else "")
                    return None
                return _MISSING

            pickles = [Record("Pickled", {"idx": i}) for i in range(n)]
            env = {stacked: pickles, cli_args_name(main.node): Record("args", {"trace": trace, "inject": None, "check_safety": False}), "fickle": Record("m", {}), "tracing": Record("m", {})}
            ev = Evaluator(env, call_hook=hook)
            try:
                ev.run_body(body)
            except Unsupported as e:
                raise AnalysisError(f"cli.main decompile arm: cannot interpret over the abstract stack domain: {e}")
            evaluations += 1
            case = f"n={n} trace={trace}"
            if [c["idx"] for c in created] != list(range(n)):
                problems.setdefault("coverage", f"{case}: interpreters created for pickles {[c['idx'] for c in created]}, expected 0..{n - 1} once each in order")
                continue
            exp = 0
            for c in created:
                if c["first"] != exp:
                    problems.setdefault("variable-ids", f"{case}: pickle {c['idx']} starts at variable id {c['first']} but the pickles before it used ids up to {exp}: a `_var` name of one pickle is reused by another")
                exp = c["first"] + counts[c["idx"]] if c["first"] == exp else exp + counts[c["idx"]]
                if not c["ran"]:
                    problems.setdefault("not-run", f"{case}: pickle {c['idx']} is never decompiled")
            names = [c["result"] for c in created]
            if len(set(names)) != len(names):
                problems.setdefault("result-names", f"{case}: result names {names} are not distinct per pickle")
            if len(printed) != n:
                problems.setdefault("printed", f"{case}: {len(printed)} program fragment(s) printed for {n} pickles")
    rep.extra["decompile_arm_evaluations"] = evaluations
    for k, msg in problems.items():
        rep.bad("C18.var-threading", main.qualname, k, msg, file, body[0].lineno if body else main.line)
    if not problems:
        rep.ok("C18.var-threading", main.qualname, f"decompile arm threads variable ids and distinct result names correctly on all {evaluations} (n, --trace) cases", f"{file}:{body[0].lineno}")
    # Interpreter side
    ic = repo.cls("fickling.fickle.Interpreter")
    init, nv, nvi = ic.method("__init__"), ic.method("new_variable"), ic.method("next_variable_id", "property")
    ok_init = any(isinstance(n, (ast.Assign, ast.AnnAssign)) and dotted(n.targets[0] if isinstance(n, ast.Assign) else n.target) == "self._var_counter" and dotted(n.value) == "first_variable_id" for n in body_walk(init.node))
    writers = []
    for fs in ic.methods.values():
        for f in fs:
            for n in body_walk(f.node):
                if isinstance(n, (ast.Assign, ast.AnnAssign, ast.AugAssign)) and dotted(n.targets[0] if isinstance(n, ast.Assign) else n.target) == "self._var_counter":
                    writers.append((f, n))
    only_incr = all(f.name == "__init__" or (isinstance(n, ast.AugAssign) and isinstance(n.op, ast.Add) and isinstance(n.value, ast.Constant) and n.value.value == 1) for f, n in writers)
    name_ok = any(isinstance(n, ast.Assign) and isinstance(n.value, ast.JoinedStr) and "self._var_counter" in src(n.value) and src(n.value).startswith("f'_var{") for n in body_walk(nv.node))
    # the increment follows the name on the same path
    g = CFG(nv.node)
    incr = [n for n in body_walk(nv.node) if isinstance(n, ast.AugAssign) and dotted(n.target) == "self._var_counter"]
    names = [n for n in body_walk(nv.node) if isinstance(n, ast.Assign) and isinstance(n.value, ast.JoinedStr)]
    paired = bool(incr and names) and g.node_of(names[0].value).id in g.dominators()[g.node_of(incr[0].value).id] and g.node_of(incr[0].value).id in g.post_dominators().get(g.node_of(names[0].value).id, set())
    nvi_ok = nvi is not None and any(isinstance(n, ast.Return) and dotted(n.value) == "self._var_counter" for n in body_walk(nvi.node))
    if ok_init and only_incr and name_ok and paired and nvi_ok:
        rep.ok("C18.var-threading", nv.qualname, "names are `_var{counter}`; counter starts at first_variable_id, is incremented once per fresh name and nowhere else; next_variable_id returns it", f"{nv.file}:{nv.line}")
    else:
        rep.bad("C18.var-threading", nv.qualname, "counter-discipline", f"Interpreter variable counter: init from first_variable_id={ok_init}, only ever +1={only_incr}, name uses it={name_ok}, increment paired with each fresh name={paired}, next_variable_id returns it={nvi_ok}", nv.file, nv.line)
    # STOP binds the interpreter's result_variable
    sums = {s.name: s for s in all_summaries(repo)}
    st = sums.get("STOP")
    good = False
    if st is not None:
        for p in st.normal:
            for v, _ in p.state.sinks:
                if isinstance(v, Fresh) and v.cls == "ast.Assign":
                    tg = p.state.heap.get(v.fields["targets"].uid, []) if hasattr(v.fields.get("targets"), "uid") else []
                    for t in tg:
                        idv = t.fields.get("id") if isinstance(t, Fresh) else None
                        if isinstance(idv, Unknown) and idv.why == "interp.result_variable":
                            good = True
    if good:
        rep.ok("C18.var-threading", "fickling.fickle.Stop.run", "STOP assigns the top of stack to interpreter.result_variable", st.where())
    else:
        rep.bad("C18.var-threading", "fickling.fickle.Stop.run", "result-name", "STOP does not bind the value to interpreter.result_variable: every stacked pickle's value would be bound to the same name", st.run.file if st else "fickling/fickle.py", st.run.line if st else 1)
    rv = any(isinstance(n, (ast.Assign, ast.AnnAssign)) and dotted(n.targets[0] if isinstance(n, ast.Assign) else n.target) == "self.result_variable" and dotted(n.value) == "result_variable" for n in body_walk(init.node))
    if rv:
        rep.ok("C18.var-threading", init.qualname, "self.result_variable = result_variable", f"{init.file}:{init.line}")
    else:
        rep.bad("C18.var-threading", init.qualname, "result-variable-ignored", "Interpreter.__init__ does not keep the result_variable it is given", init.file, init.line)


def run(rep: Report, tier: str):
    repo = load_repo()
    rep.explanation = (
        "The --inject and decompile arms of cli.main are interpreted by a pure-expression/statement evaluator over finite "
        "abstract domains (opaque pickle records; every dump / injection / interpreter construction is recorded, nothing is "
        "performed): all n in 1..3, all targets 0..n, all flag combinations. Plus CFG dominance for the range guard and "
        "structural rules for the variable counter and the STOP result name."
    )
    rep.exhaustive = True
    rep.rule("C18.partition", "--inject emits n pickles, only the target injected once with the requested flags; out-of-range -> non-zero, nothing written", 2)
    rep.rule("C18.range-guard", "every output write is dominated by the in-range edge of the target test", 1)
    rep.rule("C18.var-threading", "decompile arm threads variable ids / distinct result names; counter and STOP discipline", 4)
    from .c09 import check_trace_drives_given

    check_trace_drives_given(load_repo(), rep, rule="C18.var-threading")
    rep.rule("C18.payload-encodable", "a text payload --inject accepts also serialises (no failure from dump() after part of the stack was written)", 10)
    from .c15 import check_accepted_is_encodable

    check_accepted_is_encodable(load_repo(), rep, "C18.payload-encodable", tier)
    rep.assume("byte identity of the untouched pickles is C06's obligation (dump concatenates retained opcode bytes); validity of each emitted program is C05's")
    max_n = 6 if tier == "thorough" else 3
    rep.extra["max_stacked_pickles"] = max_n
    check_partition(repo, rep, max_n)
    check_range_guard(repo, rep)
    check_var_threading(repo, rep, max_n)

    # value level, interpreted last: cli.main on stacks of real pickles
    from ..cliworlds import explore as _cli_explore

    rep.rule("C18.cli-worlds", "on real stacks: n pickles out, bystanders byte-identical, the target is the helper's output on it alone; out-of-range targets fail and emit nothing; decompilation prints one program with distinct result and variable names", 1)
    found, n_worlds = _cli_explore(repo, tier)
    mainf = repo.func("fickling.cli.main")
    for key, (c, msg) in sorted(found.items()):
        rep.bad("C18.cli-worlds", mainf.qualname, key, f"{msg} [{c} world(s)]", mainf.file, mainf.line)
    rep.ok("C18.cli-worlds", mainf.qualname, f"{n_worlds} worlds (stacks of 1-3 real pickles x every target 0..n x --run-last x --replace-result x file / standard input for injection; the same stacks decompiled) with cli.main interpreted and argparse, the standard streams, open and print supplied by the world", "", nontrivial=True)

