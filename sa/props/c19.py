"""C19 -- safety analysis is total on every pickle that decompiles.

* C19.yield-type    every `yield` / list `return` of every Analysis.analyze produces AnalysisResult objects only.
* C19.result-shape  every AnalysisResult(...) carries a Severity member, a string message and a trigger of a
                    JSON-serialisable kind (never an AST node, opcode, set or bytes).
* C19.report        to_dict() is built from self.severity.name, a str and detailed_results(); the checked loader
                    raises UnsafeFileError(file, result.to_dict()) -- the same report check_safety produces.
* C19.node-shape    analyses (and unused-variable detection) only dereference node attributes that every node they
                    can meet has: import nodes are always ImportFrom(module, names); `.id` / `.attr` accesses on
                    assignment targets / callees are guarded by an isinstance/hasattr test on the same expression.
"""

from __future__ import annotations

import ast
from typing import Dict, List, Optional, Set

from ..model import FuncInfo, Repo, dotted, load_repo
from ..opsummary import all_summaries
from ..report import AnalysisError, Report
from ..util import body_walk, kwarg, src, walk_no_nested
from ..vmvals import Fresh

AR = "fickling.analysis.AnalysisResult"


def _is_result_ctor(repo: Repo, f: FuncInfo, e: ast.AST) -> bool:
    return isinstance(e, ast.Call) and (repo.resolve_expr(f.module, e.func, set(f.params())) or "") == AR


def _bindings(f: FuncInfo, name: str) -> List[ast.AST]:
    out = []
    for n in body_walk(f.node):
        if isinstance(n, ast.Assign):
            for t in n.targets:
                if isinstance(t, ast.Name) and t.id == name:
                    out.append(n.value)
                elif isinstance(t, (ast.Tuple, ast.List)):
                    for i, el in enumerate(t.elts):
                        if isinstance(el, ast.Name) and el.id == name:
                            out.append(ast.Subscript(value=n.value, slice=ast.Constant(i), ctx=ast.Load()))
        if isinstance(n, (ast.For, ast.comprehension)):
            tg = n.target
            names = [x.id for x in ast.walk(tg) if isinstance(x, ast.Name)]
            if name in names:
                it = n.iter
                pos = None
                if isinstance(tg, (ast.Tuple, ast.List)):
                    pos = next((i for i, el in enumerate(tg.elts) if isinstance(el, ast.Name) and el.id == name), None)
                if pos is not None and isinstance(it, ast.Call) and isinstance(it.func, ast.Attribute) and it.func.attr == "items":
                    if pos == 0:
                        out.append(ast.Call(func=ast.Name("<key-of>", ast.Load()), args=[it.func.value], keywords=[]))
                    else:
                        out.append(ast.Call(func=ast.Name("<element-of>", ast.Load()), args=[it.func.value], keywords=[]))
                elif pos is not None and isinstance(it, ast.Call) and dotted(it.func) == "enumerate" and it.args:
                    if pos == 0:
                        out.append(ast.Constant(0))
                    else:
                        out.append(ast.Call(func=ast.Name("<element-of>", ast.Load()), args=[it.args[0]], keywords=[]))
                else:
                    out.append(ast.Call(func=ast.Name("<element-of>", ast.Load()), args=[n.iter], keywords=[]))
    return out


NODE_SOURCES = ("imports", "calls", "non_setstate_calls", "non_standard_imports", "unsafe_imports", "unused_assignments", "module_body", "body", "targets", "names")


def value_kind(repo: Repo, f: FuncInfo, e: ast.AST, depth: int = 0) -> str:
    """str | int | bool | none | tuple-ok | node | opcode | set | bytes | unknown"""
    if depth > 4:
        return "unknown"
    if isinstance(e, ast.Constant):
        v = e.value
        return "none" if v is None else "bool" if isinstance(v, bool) else "int" if isinstance(v, int) else "str" if isinstance(v, str) else "bytes" if isinstance(v, bytes) else "float" if isinstance(v, float) else "unknown"
    if isinstance(e, ast.JoinedStr):
        return "str"
    if isinstance(e, (ast.Set, ast.SetComp)):
        return "set"
    if isinstance(e, (ast.Tuple, ast.List)):
        ks = [value_kind(repo, f, x, depth + 1) for x in e.elts]
        if any(k in ("node", "opcode", "set", "bytes") for k in ks):
            return next(k for k in ks if k in ("node", "opcode", "set", "bytes"))
        return "tuple-ok" if all(k in ("str", "int", "bool", "none", "tuple-ok", "float") for k in ks) else "unknown"
    if isinstance(e, ast.BinOp):
        l, r = value_kind(repo, f, e.left, depth + 1), value_kind(repo, f, e.right, depth + 1)
        if "int" in (l, r) and all(k in ("int", "unknown") for k in (l, r)):
            return "int"
        if "str" in (l, r):
            return "str"
        return "unknown"
    if isinstance(e, ast.Call):
        d = dotted(e.func) or ""
        if d in ("str", "repr", "unparse", "ast.unparse", "ast.dump") or d.endswith(".strip") or d.endswith(".format") or d.endswith(".join"):
            return "str"
        if d in ("int", "len"):
            return "int"
        if d in ("set", "frozenset"):
            return "set"
        if d in ("bytes", "bytearray"):
            return "bytes"
        if d.startswith("ast.") or d == "make_constant":
            return "node"
        if d == "<key-of>":
            return "unknown"
        if d == "<element-of>":
            it = e.args[0]
            txt = src(it)
            if any(s in txt for s in NODE_SOURCES):
                return "node"
            if "context.pickled" == txt or txt.endswith(".pickled"):
                return "opcode"
            return "unknown"
        q = repo.resolve_expr(f.module, e.func, set(f.params()))
        lk = repo.lookup(q) if q else None
        if d.endswith("shorten_code"):
            return "pair:str,bool"
        if isinstance(lk, FuncInfo) and getattr(lk.node, "returns", None) is not None:
            r = src(lk.node.returns)
            if r in ("str",):
                return "str"
            if r in ("int",):
                return "int"
        return "unknown"
    if isinstance(e, ast.Subscript) and isinstance(e.slice, ast.Constant) and isinstance(e.slice.value, int):
        k = value_kind(repo, f, e.value, depth + 1)
        if k.startswith("pair:"):
            parts = k[5:].split(",")
            return parts[e.slice.value] if e.slice.value < len(parts) else "unknown"
        if k == "opcode-or-index":
            return "int" if e.slice.value == 0 else "opcode"
        return "unknown"
    if isinstance(e, ast.Name):
        bs = _bindings(f, e.id)
        if not bs:
            return "unknown"
        ks = {value_kind(repo, f, b, depth + 1) for b in bs}
        if len(ks) == 1:
            k = ks.pop()
            return "opcode" if k == "opcode-or-index" else k
        bad = [k for k in ks if k in ("node", "opcode", "set", "bytes")]
        return bad[0] if bad else "unknown"
    if isinstance(e, ast.Attribute):
        base = value_kind(repo, f, e.value, depth + 1)
        if e.attr in ("module", "name", "attr", "id", "arg", "analysis_name", "message"):
            return "str" if base in ("node", "unknown", "opcode") else "unknown"
        if e.attr in ("version", "lineno", "pos", "severity_rank"):
            return "int"
        if e.attr in ("value", "func", "targets", "names", "args", "elts"):
            return "node" if base == "node" else "unknown"
        return "unknown"
    return "unknown"


def check_yields(repo: Repo, rep: Report):
    ab = repo.cls("fickling.analysis.Analysis")
    n = 0
    for c in repo.subclasses(ab, strict=True):
        f = c.method("analyze")
        if f is None:
            # inherits the abstract analyze (raises): class creation would still register it
            rep.bad("C19.yield-type", c.qualname, "no-analyze", f"{c.qualname} does not define analyze", c.module.relpath, c.node.lineno)
            continue
        n += 1
        ys = [x for x in body_walk(f.node) if isinstance(x, (ast.Yield, ast.YieldFrom))]
        rets = [x for x in body_walk(f.node) if isinstance(x, ast.Return) and x.value is not None]
        good = True
        for y in ys:
            if isinstance(y, ast.YieldFrom):
                v = y.value
                ok = isinstance(v, (ast.ListComp, ast.GeneratorExp)) and _is_result_ctor(repo, f, v.elt)
                if not ok and isinstance(v, ast.Call):
                    q = repo.resolve_expr(f.module, v.func, set(f.params())) or ""
                    ok = q.endswith(".analyze") or isinstance(repo.lookup(q), FuncInfo)
                if not ok:
                    good = False
                    rep.bad("C19.yield-type", f.qualname, f"yield-from:{src(v, 40)}", f"`{src(y)}` does not provably produce AnalysisResult objects", f.file, y.lineno)
                continue
            v = y.value
            ok = v is not None and _is_result_ctor(repo, f, v)
            if not ok and isinstance(v, ast.Name):
                bs = _bindings(f, v.id)
                ok = bool(bs) and all(_is_result_ctor(repo, f, b) for b in bs)
            if not ok:
                good = False
                kind = value_kind(repo, f, v) if v is not None else "none"
                rep.bad(
                    "C19.yield-type",
                    f.qualname,
                    f"yields-non-result:{src(v, 40) if v is not None else 'None'}",
                    f"`{src(y)}` yields a {kind if kind != 'unknown' else 'value'} that is not an AnalysisResult: AnalysisContext.analyze stores it and AnalysisResults.severity / to_dict then fail with AttributeError (no .severity) - check_safety raises instead of returning a verdict",
                    f.file,
                    y.lineno,
                )
        for r in rets:
            v = r.value
            ok = isinstance(v, (ast.List, ast.Tuple)) and all(_is_result_ctor(repo, f, e) for e in v.elts) or (isinstance(v, (ast.ListComp, ast.GeneratorExp)) and _is_result_ctor(repo, f, v.elt))
            if not ok and not ys:
                good = False
                rep.bad("C19.yield-type", f.qualname, f"returns-non-results:{src(v, 40)}", f"`{src(r)}` does not return a sequence of AnalysisResult objects", f.file, r.lineno)
        if not ys and not rets:
            good = False
            rep.bad("C19.yield-type", f.qualname, "returns-none", f"{f.qualname} neither yields nor returns results: list(None) raises TypeError in AnalysisContext.analyze", f.file, f.line)
        if good:
            rep.ok("C19.yield-type", f.qualname, f"{len(ys)} yield(s) / {len(rets)} return(s), all AnalysisResult(...)", f"{f.file}:{f.line}")
    if n < 9:
        raise AnalysisError(f"only {n} analyses with an analyze method (9 on the pinned tree)")
    # the consumer stores exactly what analyze produced
    ca = repo.cls("fickling.analysis.AnalysisContext").method("analyze")
    # (any way of iterating it: list(...), a comprehension, a for loop - what it then keeps is C10.aggregate's subject)
    calls = [x for x in body_walk(ca.node) if isinstance(x, ast.Call) and isinstance(x.func, ast.Attribute) and x.func.attr == "analyze" and x.args and dotted(x.args[0]) == "self"]
    if calls:
        rep.ok("C19.yield-type", ca.qualname, f"consumes `{src(calls[0])}` by iteration", f"{ca.file}:{ca.line}")
    else:
        raise AnalysisError("AnalysisContext.analyze: no `<analysis>.analyze(self)` call found (anchor vanished)")


def check_result_shape(repo: Repo, rep: Report):
    sev_members = set()
    sc = repo.cls("fickling.analysis.Severity")
    for st in sc.node.body:
        if isinstance(st, ast.Assign) and isinstance(st.targets[0], ast.Name) and not st.targets[0].id.startswith("_"):
            sev_members.add(st.targets[0].id)
    n = 0
    for f in repo.functions.values():
        if not f.module.name.startswith("fickling"):
            continue
        for c in body_walk(f.node):
            if not _is_result_ctor(repo, f, c):
                continue
            n += 1
            sev = kwarg(c, "severity", 0)
            msg = kwarg(c, "message", 1)
            trig = kwarg(c, "trigger", 3)
            problems = []
            d = dotted(sev) if sev is not None else None
            if not (d and d.startswith("Severity.") and d.split(".")[1] in sev_members):
                k = value_kind(repo, f, sev) if sev is not None else "missing"
                problems.append(f"severity is `{src(sev) if sev is not None else None}` ({k}), not a Severity member: max()/comparison over findings then fails or misorders")
            if msg is not None:
                mk = value_kind(repo, f, msg)
                if mk in ("node", "opcode", "set", "bytes", "int", "tuple-ok"):
                    problems.append(f"message is a {mk} (`{src(msg, 40)}`), not a string: to_string()'s join raises / prints a repr")
            if trig is not None:
                tk = value_kind(repo, f, trig)
                if tk in ("node", "opcode", "set", "bytes"):
                    problems.append(f"trigger `{src(trig, 40)}` is a {tk}: detailed_results() puts it into the report verbatim and json.dump raises TypeError")
            if problems:
                rep.bad("C19.result-shape", f.qualname, f"result-shape:{c.lineno - f.line}:{'/'.join(sorted(p.split(' ')[0] for p in problems))}", "; ".join(problems), f.file, c.lineno)
            else:
                rep.ok("C19.result-shape", f.qualname, f"AnalysisResult({src(sev)}, <str>, trigger={src(trig, 30) if trig is not None else None})", f"{f.file}:{c.lineno}")
    if n < 12:
        raise AnalysisError(f"only {n} AnalysisResult constructions found (14 on the pinned tree)")


def check_report(repo: Repo, rep: Report):
    td = repo.cls("fickling.analysis.AnalysisResults").method("to_dict")
    dr = repo.cls("fickling.analysis.AnalysisResults").method("detailed_results")
    if td is None or dr is None:
        raise AnalysisError("AnalysisResults.to_dict / detailed_results not found")
    dicts = [n for n in body_walk(td.node) if isinstance(n, ast.Dict)]
    keys = {}
    for dct in dicts:
        for k, v in zip(dct.keys, dct.values):
            if isinstance(k, ast.Constant):
                keys[k.value] = v
    need = {"severity": lambda v: dotted(v) == "self.severity.name", "detailed_results": lambda v: isinstance(v, ast.Call) and dotted(v.func) == "self.detailed_results"}
    for k, pred in need.items():
        if k not in keys:
            rep.bad("C19.report", td.qualname, f"missing-key:{k}", f"to_dict() no longer reports '{k}'", td.file, td.line)
        elif not pred(keys[k]):
            rep.bad("C19.report", td.qualname, f"key-source:{k}", f"to_dict()['{k}'] is `{src(keys[k])}`", td.file, td.line)
        else:
            rep.ok("C19.report", td.qualname, f"'{k}': {src(keys[k])}", f"{td.file}:{td.line}")
    if "analysis" in keys:
        rep.ok("C19.report", td.qualname, "'analysis': a string (to_string() or the fixed warning)", f"{td.file}:{td.line}")
    # detailed_results returns a plain dict of dicts keyed by strings
    rets = [n.value for n in body_walk(dr.node) if isinstance(n, ast.Return)]
    if rets and all(isinstance(r, ast.Call) and dotted(r.func) == "dict" or isinstance(r, ast.Dict) for r in rets):
        rep.ok("C19.report", dr.qualname, "returns a plain dict (JSON-serialisable container)", f"{dr.file}:{dr.line}")
    else:
        rep.bad("C19.report", dr.qualname, "not-plain-dict", f"detailed_results returns {[src(r) for r in rets]}", dr.file, dr.line)
    ld = repo.func("fickling.loader.load")
    res = None
    for n in body_walk(ld.node):
        if isinstance(n, ast.Assign) and isinstance(n.value, ast.Call) and (repo.resolve_expr(ld.module, n.value.func) or "").endswith("check_safety") and isinstance(n.targets[0], ast.Name):
            res = n.targets[0].id
    raises = [n for n in body_walk(ld.node) if isinstance(n, ast.Raise) and isinstance(n.exc, ast.Call) and (repo.resolve_expr(ld.module, n.exc.func) or "").endswith("UnsafeFileError")]
    if not raises or res is None:
        raise AnalysisError("loader.load: UnsafeFileError raise / check_safety result not found")
    for r in raises:
        a = r.exc.args[1] if len(r.exc.args) > 1 else kwarg(r.exc, "info")
        if isinstance(a, ast.Call) and isinstance(a.func, ast.Attribute) and a.func.attr == "to_dict" and dotted(a.func.value) == res and not a.args and not a.keywords:
            rep.ok("C19.report", ld.qualname, f"raise UnsafeFileError(_, {res}.to_dict()) - the default report, same content as check_safety's", f"{ld.file}:{r.lineno}")
        else:
            rep.bad("C19.report", ld.qualname, "error-report-differs", f"UnsafeFileError carries `{src(a) if a is not None else None}`, not `{res}.to_dict()` with default arguments: its content differs from the report of check_safety for the same bytes", ld.file, r.lineno)
    ex = repo.cls("fickling.exception.UnsafeFileError").method("__init__")
    st = [n for n in body_walk(ex.node) if isinstance(n, ast.Assign) and dotted(n.targets[0]) == "self.info" and isinstance(n.value, ast.Name) and n.value.id == "info"]
    if st:
        rep.ok("C19.report", ex.qualname, "self.info = info (stored unchanged)", f"{ex.file}:{ex.line}")
    else:
        rep.bad("C19.report", ex.qualname, "info-not-stored", "UnsafeFileError no longer stores its info argument unchanged", ex.file, ex.line)


def _guards(fn: ast.AST, target: ast.AST) -> Set[str]:
    """Normalised subjects of isinstance/hasattr tests that must have succeeded when `target` is evaluated."""
    out: Set[str] = set()
    parents: Dict[int, ast.AST] = {}
    for n in ast.walk(fn):
        for ch in ast.iter_child_nodes(n):
            parents[id(ch)] = n

    def tests_of(t: ast.AST, positive: bool):
        if isinstance(t, ast.BoolOp) and isinstance(t.op, ast.And) and positive:
            for v in t.values:
                tests_of(v, True)
        elif isinstance(t, ast.UnaryOp) and isinstance(t.op, ast.Not):
            tests_of(t.operand, not positive)
        elif isinstance(t, ast.Call) and positive:
            d = dotted(t.func)
            if d == "isinstance" and len(t.args) == 2:
                out.add("isinstance:" + src(t.args[0]) + ":" + src(t.args[1]))
            if d == "hasattr" and len(t.args) == 2 and isinstance(t.args[1], ast.Constant):
                out.add("hasattr:" + src(t.args[0]) + ":" + str(t.args[1].value))
        elif isinstance(t, ast.BoolOp) and isinstance(t.op, ast.Or) and not positive:
            for v in t.values:
                tests_of(v, False)

    cur = target
    while id(cur) in parents:
        p = parents[id(cur)]
        if isinstance(p, ast.If):
            if any(cur is s for s in p.body):
                tests_of(p.test, True)
            elif any(cur is s for s in p.orelse):
                tests_of(p.test, False)
        if isinstance(p, ast.IfExp):
            if cur is p.body:
                tests_of(p.test, True)
            elif cur is p.orelse:
                tests_of(p.test, False)
        if isinstance(p, ast.BoolOp) and isinstance(p.op, ast.And):
            idx = next((i for i, v in enumerate(p.values) if v is cur), None)
            if idx:
                for v in p.values[:idx]:
                    tests_of(v, True)
        if isinstance(p, ast.BoolOp) and isinstance(p.op, ast.Or):
            idx = next((i for i, v in enumerate(p.values) if v is cur), None)
            if idx:
                for v in p.values[:idx]:
                    tests_of(v, False)
        if isinstance(p, (ast.ListComp, ast.GeneratorExp, ast.SetComp, ast.DictComp)):
            for g in p.generators:
                for c in g.ifs:
                    if cur is not c:
                        tests_of(c, True)
        if isinstance(p, ast.comprehension):
            idx = next((i for i, c in enumerate(p.ifs) if c is cur), None)
            if idx:
                for c in p.ifs[:idx]:
                    tests_of(c, True)
        cur = p
    # an earlier `if not isinstance(x, T): continue/return/raise` in the same block
    cur = target
    while id(cur) in parents:
        p = parents[id(cur)]
        for fld in ("body", "orelse"):
            blk = getattr(p, fld, None)
            if isinstance(blk, list) and any(cur is s for s in blk):
                i = next(k for k, s in enumerate(blk) if s is cur)
                for prev in blk[:i]:
                    if isinstance(prev, ast.If) and prev.body and isinstance(prev.body[-1], (ast.Continue, ast.Return, ast.Raise, ast.Break)) and not prev.orelse:
                        tests_of(prev.test, False)
        cur = p
    return out


def check_node_shape(repo: Repo, rep: Report):
    # (a) the only import node class fickling constructs, with both fields
    sums = all_summaries(repo)
    kinds = set()
    for s in sums:
        for p in s.normal:
            for v, _ in p.state.sinks:
                if isinstance(v, Fresh) and v.cls in ("ast.Import", "ast.ImportFrom"):
                    kinds.add((v.cls, "module" in v.fields and "names" in v.fields))
    if kinds == {("ast.ImportFrom", True)}:
        rep.ok("C19.node-shape", "fickling.fickle.*", "every import statement emitted is ast.ImportFrom(module=..., names=[...]): `.module` / `.names` exist on all of them", "")
    else:
        rep.bad("C19.node-shape", "fickling.fickle.*", f"import-node-kinds:{sorted(kinds)}", f"opcode handlers emit import nodes {sorted(kinds)}; the analyses dereference `.module` and `.names` on every import node", "fickling/fickle.py", 1)
    # (b) .id / .attr dereferences are guarded
    scope = [f for f in repo.functions.values() if f.module.name in ("fickling.analysis", "fickling.ml") or f.qualname.startswith(("fickling.fickle.Interpreter.unused", "fickling.fickle.ASTProperties", "fickling.fickle.Pickled.unsafe_imports", "fickling.fickle.Pickled.non_standard_imports"))]
    n = 0
    for f in scope:
        for a in body_walk(f.node):
            if not (isinstance(a, ast.Attribute) and isinstance(a.ctx, ast.Load) and a.attr in ("id", "attr")):
                continue
            subj = a.value
            s = src(subj)
            if s in ("self", "cls") or s.startswith("self."):
                continue
            n += 1
            g = _guards(f.node, a)
            want_cls = "ast.Name" if a.attr == "id" else "ast.Attribute"
            ok = any(x == f"isinstance:{s}:{want_cls}" or x == f"hasattr:{s}:{a.attr}" for x in g)
            # a loop variable filtered at the comprehension/for level
            if ok:
                rep.ok("C19.node-shape", f.qualname, f"`{src(a)}` guarded by {want_cls}/hasattr test on `{s}`", f"{f.file}:{a.lineno}")
            else:
                rep.bad("C19.node-shape", f.qualname, f"unguarded:{src(a)}", f"`{src(a)}` is dereferenced without an isinstance({s}, {want_cls}) / hasattr guard on that expression: fickling emits other node kinds there (e.g. assignment targets can be ast.Subscript, callees can be ast.Attribute/ast.Call), so the analysis raises AttributeError instead of returning a verdict", f.file, a.lineno)
    if n < 4:
        raise AnalysisError(f"only {n} `.id`/`.attr` dereferences found on the analysis path (5 on the pinned tree)")


def check_total_helpers(repo: Repo, rep: Report, tier: str):
    """Lookups in literal tables on the analysis path are total: `{...}[key]` with a computed key raises KeyError for the
    keys the literal lacks, and the exception escapes check_safety instead of a verdict being returned."""
    import math

    from ..minieval import Evaluator, PyRaise, Unsupported

    scope = [f for f in repo.functions.values() if f.module.name in ("fickling.analysis", "fickling.ml") or f.qualname.startswith(("fickling.fickle.Interpreter.unused", "fickling.fickle.ASTProperties", "fickling.fickle.Pickled.unsafe_imports", "fickling.fickle.Pickled.non_standard_imports"))]
    n_sites = 0
    for f in scope:
        lits = {t.id: n.value for n in body_walk(f.node) if isinstance(n, ast.Assign) and isinstance(n.value, ast.Dict) for t in n.targets if isinstance(t, ast.Name)}
        for sub in body_walk(f.node):
            if not (isinstance(sub, ast.Subscript) and isinstance(sub.ctx, ast.Load)):
                continue
            cont = sub.value if isinstance(sub.value, ast.Dict) else (lits.get(sub.value.id) if isinstance(sub.value, ast.Name) else None)
            if not isinstance(cont, ast.Dict) or isinstance(sub.slice, ast.Constant):
                continue
            n_sites += 1
            keys = [k.value for k in cont.keys if isinstance(k, ast.Constant)]
            # guarded by try/except KeyError-ish or by a membership test?
            guarded = False
            for t in body_walk(f.node):
                if isinstance(t, ast.Try) and any(sub is x for b in t.body for x in ast.walk(b)) and any(h.type is None or any(nm in src(h.type) for nm in ("KeyError", "LookupError", "Exception")) for h in t.handlers):
                    guarded = True
                if isinstance(t, (ast.If, ast.IfExp)) and isinstance(t.test, ast.Compare) and isinstance(t.test.ops[0], ast.In) and src(t.test.left) == src(sub.slice) and any(sub is x for b in (t.body if isinstance(t, ast.If) else [t.body]) for x in ast.walk(b)):
                    guarded = True
            if guarded:
                rep.ok("C19.total-helpers", f.qualname, f"`{src(sub)[:60]}` is guarded (handler / membership test)", f"{f.file}:{sub.lineno}")
                continue
            params = [p for p in f.params() if p not in ("self", "cls")]
            a = f.node.args
            ints = len(params) == 1 and all((src(x.annotation) if x.annotation is not None else "") == "int" for x in a.args if x.arg in params)
            if not ints:
                raise AnalysisError(f"{f.qualname}: `{src(sub)[:60]}` indexes a literal table with a computed key and the function is not a single-int helper the evaluator can enumerate (undecided)")
            mods = [n.right.value for n in body_walk(f.node) if isinstance(n, ast.BinOp) and isinstance(n.op, (ast.Mod, ast.FloorDiv)) and isinstance(n.right, ast.Constant) and isinstance(n.right.value, int) and n.right.value > 0]
            consts = [abs(n.value) for n in body_walk(f.node) if isinstance(n, ast.Constant) and isinstance(n.value, int) and not isinstance(n.value, bool)]
            period = 1
            for m in mods:
                period = period * m // math.gcd(period, m)
            hi = min(max(2 * period + max(consts + [0]) + 2, 64), 5000 if tier == "thorough" else 1200)
            failing = None
            for v in range(0, hi):
                try:
                    Evaluator({params[0]: v}).run_body(f.node.body)
                except PyRaise as pe:
                    failing = (v, pe.name)
                    break
                except Unsupported as e:
                    raise AnalysisError(f"{f.qualname}: cannot interpret the helper to decide whether `{src(sub)[:60]}` is total: {e}")
            if failing:
                rep.bad("C19.total-helpers", f.qualname, f"partial-lookup:{src(sub.value)[:40] if not isinstance(sub.value, ast.Dict) else 'dict-literal'}", f"`{src(sub)[:80]}` has keys {keys} only: {f.name}({failing[0]}) raises {failing[1]} (the function's arithmetic is periodic with period {period}; {hi} arguments enumerated), so check_safety raises instead of returning a verdict for such a pickle", f.file, sub.lineno)
            else:
                rep.ok("C19.total-helpers", f.qualname, f"`{src(sub)[:60]}`: no argument in 0..{hi - 1} (two periods of the helper's modular arithmetic) misses the table", f"{f.file}:{sub.lineno}")
    rep.ok("C19.total-helpers", "fickling/analysis path", f"{len(scope)} functions scanned: {n_sites} computed-key lookup(s) in literal tables", "")


def check_report_total(repo: Repo, rep: Report):
    """Two ways an analysis or the report can raise although every finding is well-formed:

    * ordering findings by a key that includes `.trigger`: triggers are a code fragment (str) for some analyses, an opcode
      position (int) for others and None for the rest - Python refuses to order str against int as soon as two findings tie
      on the earlier key components;
    * a bare `next(<generator>)`: when nothing matches it raises StopIteration, which inside a generator function (every
      `analyze`) becomes RuntimeError."""
    kinds = set()
    for f in repo.functions.values():
        if not f.module.name.startswith("fickling"):
            continue
        for c in body_walk(f.node):
            if _is_result_ctor(repo, f, c):
                trig = kwarg(c, "trigger", 3)
                kinds.add("none" if trig is None else value_kind(repo, f, trig))
    hetero = len({k for k in kinds if k in ("int", "str", "none", "node", "opcode", "tuple-ok", "bytes")}) > 1
    scope = [f for f in repo.functions.values() if f.module.name in ("fickling.analysis", "fickling.ml", "fickling.loader")]
    n = 0
    for f in scope:
        is_gen = any(isinstance(x, (ast.Yield, ast.YieldFrom)) for x in body_walk(f.node))
        for c in body_walk(f.node):
            if not isinstance(c, ast.Call):
                continue
            fn = dotted(c.func) or ""
            keyf = next((k.value for k in c.keywords if k.arg == "key"), None)
            if (fn in ("sorted", "min", "max") or fn.endswith(".sort")) and keyf is not None and any(isinstance(x, ast.Attribute) and x.attr == "trigger" for x in ast.walk(keyf)):
                n += 1
                if hetero:
                    rep.bad("C19.report", f.qualname, "orders-heterogeneous-triggers", f"`{src(c)[:90]}` orders findings by a key that contains `.trigger`; triggers are {sorted(kinds)} across the analyses, and Python raises TypeError when it has to order a str against an int (two findings that tie on the preceding key components): the report, and with it check_safety and the checked loader, then raise", f.file, c.lineno)
            if fn == "next" and len(c.args) == 1 and not c.keywords:
                n += 1
                guarded = any(isinstance(t, ast.Try) and any(c is y for b in t.body for y in ast.walk(b)) and any(h.type is None or any(nm in src(h.type) for nm in ("StopIteration", "RuntimeError", "Exception")) for h in t.handlers) for t in ast.walk(f.node))
                arg = c.args[0]
                never_empty = isinstance(arg, ast.Call) and dotted(arg.func) == "iter" and arg.args and isinstance(arg.args[0], ast.Call) and isinstance(arg.args[0].func, ast.Attribute) and arg.args[0].func.attr in ("split", "rsplit", "splitlines", "partition")
                if not guarded and not never_empty:
                    rep.bad("C19.report", f.qualname, "bare-next", f"`{src(c)[:90]}` has no default and no handler: when nothing matches it raises StopIteration{', which inside this generator function becomes `RuntimeError: generator raised StopIteration`' if is_gen else ''} - the analysis raises instead of producing its finding", f.file, c.lineno)
    # the JSON report: findings quote names taken from the pickle (any str, including lone surrogates and astral characters).
    # json.dump(s) is total over str only in its default ASCII-escaping mode; with ensure_ascii=False the characters go to the
    # file as they are and a strict text encoder refuses what it cannot encode (UnicodeEncodeError out of check_safety)
    for f in scope:
        for c in body_walk(f.node):
            if not isinstance(c, ast.Call) or (dotted(c.func) or "") not in ("json.dump", "json.dumps"):
                continue
            n += 1
            ea = next((k.value for k in c.keywords if k.arg == "ensure_ascii"), None)
            if ea is None or (isinstance(ea, ast.Constant) and ea.value not in (False, 0, None)):
                continue
            if (dotted(c.func) or "").endswith("dumps"):
                # the str is produced; whether it is later encoded strictly is the writer's business - look for an encode/write
                lenient = False
            else:
                lenient = False
                fobj = c.args[1] if len(c.args) > 1 else next((k.value for k in c.keywords if k.arg == "fp"), None)
                if isinstance(fobj, ast.Name):
                    for w in ast.walk(f.node):
                        if isinstance(w, ast.withitem) and isinstance(w.optional_vars, ast.Name) and w.optional_vars.id == fobj.id and isinstance(w.context_expr, ast.Call):
                            er = next((k.value for k in w.context_expr.keywords if k.arg == "errors"), None)
                            if isinstance(er, ast.Constant) and er.value in ("surrogatepass", "surrogateescape", "backslashreplace", "replace", "ignore", "xmlcharrefreplace", "namereplace"):
                                lenient = True
            if not lenient:
                rep.bad("C19.report", f.qualname, "report-writer-not-total:ensure_ascii", f"`{src(c)[:100]}` switches off JSON's ASCII escaping: names quoted from the pickle (a module or attribute name may contain a lone surrogate) are then written as they are, and a strict text encoding raises UnicodeEncodeError - check_safety, and with it the checked loader, fail instead of reporting", f.file, c.lineno)
    rep.ok("C19.report", "fickling.analysis / fickling.ml", f"{len(scope)} functions scanned: {n} ordering-by-trigger / bare-next / JSON-writer site(s)", "", nontrivial=False)


def check_opcode_properties(repo: Repo, rep: Report):
    """Properties of opcode objects that the analyses read must be total over what the parser can put into the opcode:
    an exception raised by `opcode.<prop>` inside an analysis escapes check_safety although the pickle decompiles (the
    interpreter never reads e.g. PROTO's version)."""
    from ..minieval import PyRaise, Unsupported
    from ..model import opcode_registry
    from ..objeval import ObjEval
    from .c15 import _DESC_REPS, _label

    readers = [f for f in repo.functions.values() if f.module.name in ("fickling.analysis", "fickling.ml")]
    read_attrs = {n.attr for f in readers for n in body_walk(f.node) if isinstance(n, ast.Attribute) and isinstance(n.ctx, ast.Load)}
    oe = ObjEval(repo)
    ops, _ = opcode_registry(repo)
    extra = {"uint1": list(range(0, 8)) + [127, 128, 254, 255], "uint2": [0, 1, 255, 256, 65535], "uint4": [0, 1, 2**31, 2**32 - 1]}
    n_props = 0
    for oc in ops:
        c = oc.cls
        arg = oc.info.arg.name if oc.info.arg else None
        seen = set()
        for k in repo.mro_classes(c):
            for name, fs in k.methods.items():
                for f in fs:
                    if f.kind != "property" or name in seen or name not in read_attrs:
                        continue
                    seen.add(name)
                    n_props += 1
                    reps = [r for r in _DESC_REPS.get(arg, [()]) if r != ()] + extra.get(arg, [])
                    if arg in ("uint1", "uint2", "uint4"):
                        reps = [r for r in reps if isinstance(r, int) and 0 <= r < 2 ** (8 * int(arg[-1]))]
                        reps += [r.to_bytes(int(arg[-1]), "little") for r in list(reps)]
                    if arg is None:
                        reps = [None]
                    bad = None
                    for r in reps:
                        try:
                            inst = oe.ref(c)(r, 0, b"\x00")
                            inst.sa_attr(name)
                        except PyRaise as pe:
                            bad = (r, pe.name)
                            break
                        except Unsupported as e:
                            raise AnalysisError(f"C19.total-helpers: cannot interpret {k.qualname}.{name} for {oc.opname}({_label(r) if r is not None else None}): {e}")
                    if bad:
                        rep.bad("C19.total-helpers", f"{k.qualname}.{name}", f"opcode-property-raises:{oc.opname}", f"`{c.name}({_label(bad[0]) if bad[0] is not None else None}).{name}` raises {bad[1]}; the analyses read `.{name}` of every such opcode, so check_safety raises instead of returning a verdict for a pickle that decompiles (the interpreter never reads this property)", k.module.relpath, f.line)
                    else:
                        rep.ok("C19.total-helpers", f"{k.qualname}.{name}", f"{oc.opname}: `.{name}` is defined for all {len(reps)} representative argument(s) of `{arg}`", f"{k.module.relpath}:{f.line}")
    if n_props == 0:
        raise AnalysisError("no opcode property read by an analysis was found (Proto.version on the pinned tree)")


def run(rep: Report, tier: str):
    repo = load_repo()
    rep.explanation = (
        "Type discipline across the sibling analyses: what each analyze() yields, the shape of every AnalysisResult "
        "construction (kinds inferred by a local def-use walk), the report chain to_dict -> UnsafeFileError, and guardedness "
        "of node-attribute dereferences given the node classes the opcode handlers can emit (from the E5 summaries)."
    )
    rep.rule("C19.yield-type", "every analyze() produces AnalysisResult objects only", 10)
    rep.rule("C19.result-shape", "AnalysisResult(Severity member, str message, JSON-serialisable trigger)", 12)
    rep.rule("C19.report", "to_dict from severity.name/str/detailed_results; loader raises UnsafeFileError(file, result.to_dict())", 5)
    rep.rule("C19.node-shape", "node attribute dereferences are valid for every node kind fickling emits", 5)
    rep.rule("C19.total-helpers", "computed-key lookups in literal tables on the analysis path cannot miss", 1)
    check_yields(repo, rep)
    check_result_shape(repo, rep)
    check_report(repo, rep)
    check_report_total(repo, rep)
    check_node_shape(repo, rep)
    check_total_helpers(repo, rep, tier)
    check_opcode_properties(repo, rep)

    # end to end, interpreted last: parse -> decompile -> every analysis -> report, over the corpus and the assembled programs
    from ..vmworlds import report_safety

    rep.rule("C19.end-to-end", "every corpus pickle that decompiles gets a Severity verdict, findings with severity and message, and a JSON-serialisable report", 1)
    report_safety(repo, rep, "C19.end-to-end", tier)

