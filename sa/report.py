"""Findings, obligations, known-findings matching, evidence and exit codes."""

from __future__ import annotations

import json
import os
import sys
import time
from dataclasses import dataclass, field
from pathlib import Path
from typing import Any, Dict, List, Optional

VERIF = Path(__file__).resolve().parent.parent
REPO = Path(os.environ.get("FICKLING_REPO", "/repo")).resolve()
EVIDENCE_DIR = Path(os.environ.get("SA_EVIDENCE_DIR", str(VERIF / "evidence")))
KNOWN_FILE = VERIF / "known_findings.json"


class AnalysisError(Exception):
    """The checker cannot decide (vanished anchor, unrecognised idiom). Exit 2, never a violation."""


@dataclass
class Finding:
    rule: str
    construct: str
    detail: str
    message: str
    file: str = ""
    line: int = 0
    path: List[str] = field(default_factory=list)

    @property
    def key(self) -> str:
        return f"{self.rule}|{self.construct}|{self.detail}"

    def where(self) -> str:
        return f"{self.file}:{self.line}" if self.file else "?"


@dataclass
class Instance:
    rule: str
    construct: str
    what: str
    ok: bool
    where: str = ""
    nontrivial: bool = True


class Report:
    def __init__(self, pid: str, tier: str = "quick"):
        self.pid = pid
        self.tier = tier
        self.t0 = time.time()
        self.instances: List[Instance] = []
        self.findings: List[Finding] = []
        self.infos: List[str] = []
        self.assumptions: List[str] = []
        self.units: Dict[str, Any] = {}
        self.rules: Dict[str, str] = {}
        self.minima: Dict[str, int] = {}
        self.explanation = ""
        self.exhaustive: Optional[bool] = None
        self.extra: Dict[str, Any] = {}

    # ------------------------------------------------------------------ recording
    def rule(self, name: str, text: str, minimum: int = 1):
        """Declare a rule, its one-line statement and the vacuity minimum of instances."""
        self.rules[name] = text
        self.minima[name] = minimum

    def ok(self, rule: str, construct: str, what: str, where: str = "", nontrivial: bool = True):
        self.instances.append(Instance(rule, construct, what, True, where, nontrivial))

    def bad(
        self,
        rule: str,
        construct: str,
        detail: str,
        message: str,
        file: str = "",
        line: int = 0,
        path: Optional[List[str]] = None,
        what: Optional[str] = None,
    ) -> Finding:
        f = Finding(rule, construct, detail, message, file, line, list(path or []))
        # one finding per key
        if all(g.key != f.key for g in self.findings):
            self.findings.append(f)
        self.instances.append(Instance(rule, construct, what or detail, False, f.where(), True))
        return f

    def info(self, msg: str):
        self.infos.append(msg)

    def assume(self, msg: str):
        if msg not in self.assumptions:
            self.assumptions.append(msg)

    # ------------------------------------------------------------------ finishing
    def _known(self) -> List[dict]:
        if not KNOWN_FILE.exists():
            return []
        data = json.loads(KNOWN_FILE.read_text())
        return [e for e in data.get("findings", []) if e.get("property") == self.pid]

    def part(self, what: str = ""):
        """`with rep.part("structural rules"):` - an AnalysisError inside the block leaves that part undecided and lets the rules
        that follow (typically the interpretive ones) run; finish() then reports the property as undecided unless a violation
        was established (a finding stands on its own)."""
        return _Part(self, what)

    def finish(self, quiet: bool = False) -> int:
        deferred = getattr(self, "_deferred_error", None)
        if deferred is not None and not any(f.key not in {e["key"] for e in self._known() if e.get("status") == "known"} for f in self.findings):
            raise deferred
        if deferred is not None:
            self.info(f"PARTIALLY UNDECIDED: {deferred}")
            print(f"note: property={self.pid}: some rules were not evaluated (analysis error: {deferred}); findings of the rules that ran stand on their own")
        # vacuity guards
        counts: Dict[str, int] = {}
        for i in self.instances:
            counts[i.rule] = counts.get(i.rule, 0) + 1
        failing_rules = {i.rule for i in self.instances if not i.ok}
        any_failing = bool(failing_rules)
        for r, m in self.minima.items():
            # a rule (or an earlier rule whose finding cut the analysis short) that found something is
            # not vacuous; the guard is about silent passes
            if counts.get(r, 0) < m and not any_failing:
                raise AnalysisError(
                    f"rule {r} matched {counts.get(r, 0)} instance(s), fewer than the {m} confirmed "
                    f"on the pinned tree: the rule no longer sees its anchors (vacuous pass refused)"
                )
        known = {e["key"]: e for e in self._known() if e.get("status") == "known"}
        matched_known: List[Finding] = []
        violations: List[Finding] = []
        for f in self.findings:
            if f.key in known:
                matched_known.append(f)
            else:
                violations.append(f)
        out = []
        out.append(f"== {self.pid} ({self.tier}) repo={REPO}")
        for r, text in self.rules.items():
            n = counts.get(r, 0)
            nbad = sum(1 for i in self.instances if i.rule == r and not i.ok)
            out.append(f"  rule {r}: {n} instance(s), {nbad} failing -- {text}")
        for m in self.infos:
            out.append(f"  info: {m}")
        stale = [k for k in known if all(f.key != k for f in self.findings)]
        for k in stale:
            out.append(f"  note: known finding no longer reproduced (not an error): {k}")
        for f in matched_known:
            out.append(
                f"KNOWN-FINDING: property={self.pid} {f.key} at {f.where()} -- "
                f"{known[f.key].get('what', f.message)}"
            )
        replay_dir = EVIDENCE_DIR / "replay"
        for n, f in enumerate(violations):
            replay_dir.mkdir(parents=True, exist_ok=True)
            rp = replay_dir / f"{self.pid}-{n}.json"
            rp.write_text(
                json.dumps(
                    {
                        "property": self.pid,
                        "key": f.key,
                        "rule": f.rule,
                        "rule_text": self.rules.get(f.rule, ""),
                        "construct": f.construct,
                        "detail": f.detail,
                        "message": f.message,
                        "file": f.file,
                        "line": f.line,
                        "path": f.path,
                    },
                    indent=1,
                )
            )
            out.append(f"  finding: key={f.key} at {f.where()}: {f.message}")
            for p in f.path:
                out.append(f"      via {p}")
            out.append(f"VIOLATION property={self.pid} replay={rp}")
        self._write_evidence(counts, matched_known, violations)
        if not quiet:
            print("\n".join(out))
        return 1 if violations else 0

    def _write_evidence(self, counts, matched_known, violations):
        EVIDENCE_DIR.mkdir(parents=True, exist_ok=True)
        distinct = {(i.rule, i.construct, i.what) for i in self.instances if i.nontrivial}
        samples = []
        seen_rules = set()
        for i in self.instances:
            if i.rule in seen_rules and len(samples) >= 12:
                continue
            if sum(1 for s in samples if s["rule"] == i.rule) >= 3:
                continue
            seen_rules.add(i.rule)
            samples.append(
                {"rule": i.rule, "construct": i.construct, "what": i.what, "ok": i.ok, "where": i.where}
            )
        ev = {
            "property_id": self.pid,
            "tier": self.tier,
            "seed": int(os.environ.get("VERIF_SEED", "0") or 0),
            "level": "other",
            "coverage": {
                "explanation": self.explanation
                or "static analysis of the parsed source; see rules and instances",
                "evaluations": len(self.instances),
                "distinct_nontrivial": len(distinct),
                "rule": "one evaluation = one (rule, construct) instance examined in the parsed "
                "source; non-trivial = the rule had an obligation to decide there (not skipped)",
                "obligations": len(self.instances),
                "discharged": sum(1 for i in self.instances if i.ok),
                "samples": samples,
                "rules": [
                    {"rule": r, "text": t, "instances": counts.get(r, 0), "minimum": self.minima[r]}
                    for r, t in self.rules.items()
                ],
                "units": self.units,
                "known_findings_matched": [f.key for f in matched_known],
                "findings": [
                    {"key": f.key, "where": f.where(), "message": f.message}
                    for f in (matched_known + violations)
                ],
                "info": self.infos[:60],
                "trusted_base": self.assumptions,
                "checker_cmd": f"/venv/bin/python -m sa.check {self.pid} --tier {self.tier}",
            },
            "assumptions": self.assumptions,
            "wall_s": round(time.time() - self.t0, 3),
            "violations": len(violations),
        }
        if self.exhaustive is not None:
            ev["coverage"]["exhaustive"] = self.exhaustive
        ev["coverage"].update(self.extra)
        (EVIDENCE_DIR / f"{self.pid}.json").write_text(json.dumps(ev, indent=1, default=str))


def rel(path) -> str:
    try:
        return str(Path(path).resolve().relative_to(REPO))
    except Exception:
        return str(path)


class _Part:
    def __init__(self, rep, what):
        self.rep, self.what = rep, what

    def __enter__(self):
        return self

    def __exit__(self, et, ev, tb):
        if et is not None and issubclass(et, AnalysisError):
            if getattr(self.rep, "_deferred_error", None) is None:
                self.rep._deferred_error = ev
            return True
        return False


class Demoter:
    """Proxy for a Report that turns the findings of the named rules into information.  Used where a clause is decided by
    interpretation (which ran and completed) and an older rule that matches the *shape* of the code is kept as a pointer to the
    construct: the shape rule may name a behaviour-preserving rewrite, so it cannot be the verdict; if the interpretation could
    not be carried out, the shape rules are not demoted and decide as before."""

    def __init__(self, rep, rules, decided_by: str):
        object.__setattr__(self, "_rep", rep)
        object.__setattr__(self, "_rules", set(rules))
        object.__setattr__(self, "_by", decided_by)

    def __getattr__(self, name):
        return getattr(self._rep, name)

    def __setattr__(self, name, value):
        setattr(self._rep, name, value)

    def bad(self, rule, construct, detail, message, file, line, **kw):
        if rule in self._rules:
            self._rep.info(f"shape-level candidate, not a verdict (the clause is decided by {self._by}) {rule}|{construct}|{detail}: {message[:220]}")
            self._rep.ok(rule, construct, f"(candidate only) {detail}", f"{file}:{line}", nontrivial=False)
            return
        return self._rep.bad(rule, construct, detail, message, file, line, **kw)
