"""Archive worlds for C16: `fickling.pytorch.PyTorchModelWrapper` interpreted (sa.objeval) over an abstract file system.

A world is a model archive (ordered members, one of them `<dir>/data.pkl` holding a real model-shaped pickle) stored under
one path, one or two wrappers for that path, and a short sequence of operations on them: `inject_payload(payload_i, out_i,
injection="insertion", overwrite=...)` and reads of `.pickled` (the read-only query every caller of the wrapper makes before
deciding to inject).  Nothing of the repository runs: the class's own source is interpreted statement by statement;
`zipfile.ZipFile`, `pathlib.Path`, `os.remove` are the abstract file system's (a dict path -> member list), the model pickle
is parsed / edited / re-serialised by the interpreted `Pickled`, and what the emitted model pickle *does* is read off
CPython's own unpickler on inert stand-ins (sa.vmworlds) - calls made, arguments, value returned.

After every injection the property's clauses are compared with the state of the file system *at the moment of that call*:
same member names in the same order; every other member byte-identical; loading the model pickle makes the calls the
input's model pickle makes plus exactly one exec(payload) and returns an equal value; without overwrite the input is
untouched and the output holds the archive, with overwrite the input holds it and no output remains; no other path appears.
"""

from __future__ import annotations

import io
import itertools
from typing import Any, Dict, List, Tuple

from . import vmworlds as V
from .injectworlds import _load, _strict_eq
from .minieval import PyRaise, Record, Unsupported
from .model import Repo
from .objeval import ModuleRef, Native
from .report import AnalysisError

W = "fickling.pytorch.PyTorchModelWrapper"
IN = "models/model.pt"

TENSOR = b"ctorch._utils\n_rebuild_tensor_v2\n((X\x07\x00\x00\x00storagectorch\nFloatStorage\nX\x01\x00\x00\x000X\x03\x00\x00\x00cpuK\x04tQK\x00K\x02K\x02\x86K\x02K\x01\x86\x89ccollections\nOrderedDict\n)RtR"


def _models(tier: str = "thorough"):
    """Model pickles of the shapes torch.save writes: (label, bytes, used for call sequences as well)."""
    import collections
    import pickle

    return [
        ("a state dict (OrderedDict of one tensor, BINPERSID storage, BUILD of _metadata; protocol 2)", b"\x80\x02ccollections\nOrderedDict\n)R(X\x01\x00\x00\x00w" + TENSOR + b"u}X\x09\x00\x00\x00_metadataccollections\nOrderedDict\n)Rsb."),
        ("a nested container {'layers': [t, (t, t)], 'step': 3} (protocol 2, memoised)", b"\x80\x02}q\x00(X\x06\x00\x00\x00layersq\x01]q\x02(" + TENSOR + b"q\x03" + TENSOR + b"q\x04h\x03\x86q\x05eX\x04\x00\x00\x00stepq\x06K\x03u."),
        ("a plain container saved with pickle_protocol=4 (framed)", pickle.dumps({"weights": [1.5, 2.5], "shape": (2, 1), "name": "m", "empty": []}, 4)),
        ("an OrderedDict state dict saved with pickle_protocol=4 (built by a call, MEMOIZE only)", pickle.dumps(collections.OrderedDict([("w", [1.5, 2.5]), ("b", (0.5,))]), 4)),
        ("an empty tuple (protocol 2, nothing memoised)", b"\x80\x02)."),
        ("a dict with a non-ASCII key 'd\u00e9codeur.weight' (protocol 2)", pickle.dumps({"d\u00e9codeur.weight": [1.5], "\u5c42": 2}, 2)),
        ("a dict with a 300-character key (protocol 2)", pickle.dumps({"k" * 300: 1, "short": ("x" * 70000)[:3]}, 2)),
        ("a container saved with pickle_protocol=1 (no PROTO opcode)", pickle.dumps({"weights": [1.5, 2.5], "odict": collections.OrderedDict(a=1)}, 1)),
        ("400 long entries saved with pickle_protocol=4 (larger than one frame: two FRAME opcodes)", pickle.dumps({f"layer{i}.weight": (f"{i:04d}" + "v" * 180, i) for i in range(400)}, 4)),
    ]


def _archive(model: bytes, order: int = 0):
    ms = [("archive/data.pkl", model), ("archive/byteorder", b"little"), ("archive/data/0", b"\x00\x01\x02\x03"), ("archive/data/1", b""), ("archive/xdata.pkl", b"look-alike"), ("archive/version", b"3\n"), ("archive/.data/serialization_id", b"0123")]
    if order == 1:
        ms = ms[1:] + ms[:1]
    elif order == 2:
        ms = ms[::-1]
    elif order == 3:
        ms = ms[3:] + ms[:3]
    elif order == 4:
        ms = [ms[1], ms[0]] + ms[2:]
    elif order == 5:
        ms = ms + [("archive/extra/data.pkl.bak", b"bak")]
    elif order == 6:
        ms = [(n.replace("archive/", "model_v2/", 1), d) for n, d in ms]  # torch names the top directory after the file
    return ms


def _p(x) -> str:
    if isinstance(x, Record):
        return x.fields["p"]
    if not isinstance(x, str):
        raise Unsupported(f"path value {type(x).__name__}")
    return x


class FS:
    def __init__(self, files: Dict[str, list]):
        self.files = files
        self.log: List[tuple] = []

    def zipfile(self, path, mode="r", *a, **k):
        path = _p(path)
        fs = self
        self.log.append(("zip", path, mode))
        if mode == "r":
            if path not in self.files:
                raise PyRaise("FileNotFoundError")
            members = list(self.files[path])  # what the archive holds now; a reader keeps seeing this
        elif mode in ("w", "x"):
            if mode == "x" and path in self.files:
                raise PyRaise("FileExistsError")
            self.files[path] = []  # opening for writing truncates
            members = self.files[path]
        elif mode == "a":
            members = self.files.setdefault(path, [])
        else:
            raise Unsupported(f"ZipFile mode {mode!r}")
        z = Record("ZipFile", {"filename": path, "mode": mode})

        def info(name, data):
            it = Record("ZipInfo", {"filename": name, "orig_filename": name, "file_size": len(data), "compress_size": len(data), "compress_type": 0, "external_attr": 0, "date_time": (1980, 1, 1, 0, 0, 0), "comment": b"", "extra": b"", "CRC": 0, "flag_bits": 0, "header_offset": 0})
            it.fields["()is_dir"] = lambda _n=name: _n.endswith("/")
            return it

        def nm(x):
            return x.fields["filename"] if isinstance(x, Record) else x

        def read(name, *a_, **k_):
            d = dict(members).get(nm(name))
            if d is None:
                raise PyRaise("KeyError")
            return d

        def zopen(name, mode_="r", *a_, **k_):
            if mode_ != "r":
                raise Unsupported("ZipFile.open for writing")
            return io.BytesIO(read(name))

        def writestr(name, data, *a_, **k_):
            if mode == "r":
                raise PyRaise("ValueError")
            if isinstance(data, str):
                data = data.encode()
            if not isinstance(data, (bytes, bytearray)):
                raise PyRaise("TypeError")
            members.append((nm(name), bytes(data)))
            fs.log.append(("write", path, nm(name)))

        z.fields["()infolist"] = lambda: [info(n, d) for n, d in members]
        z.fields["()namelist"] = lambda: [n for n, _ in members]
        z.fields["()getinfo"] = lambda name: info(nm(name), read(name))
        z.fields["()read"] = read
        z.fields["()open"] = zopen
        z.fields["()writestr"] = writestr
        z.fields["()close"] = lambda: None
        z.fields["()testzip"] = lambda: None
        return z

    def path(self, p):
        import posixpath

        p = _p(p)
        fs = self
        r = Record("Path", {"p": p, "name": posixpath.basename(p), "stem": posixpath.splitext(posixpath.basename(p))[0], "suffix": posixpath.splitext(p)[1]})
        r.sa_text = p  # str(path)

        def rename(dst):
            d = _p(dst)
            if p not in fs.files:
                raise PyRaise("FileNotFoundError")
            fs.files[d] = fs.files.pop(p)
            fs.log.append(("rename", p, d))
            return fs.path(d)

        def unlink(missing_ok=False):
            if p not in fs.files:
                if missing_ok:
                    return None
                raise PyRaise("FileNotFoundError")
            del fs.files[p]
            fs.log.append(("remove", p))

        r.fields["()rename"] = rename
        r.fields["()replace"] = rename
        r.fields["()exists"] = lambda: p in fs.files
        r.fields["()is_file"] = lambda: p in fs.files
        r.fields["()unlink"] = unlink
        r.fields["()resolve"] = lambda *a, **k: r
        r.fields["()absolute"] = lambda *a, **k: r
        r.fields["()with_name"] = lambda n: fs.path(posixpath.join(posixpath.dirname(p), n))
        r.fields["()with_suffix"] = lambda s: fs.path(posixpath.splitext(p)[0] + s)
        r.fields["parent"] = Record("Path", {"p": posixpath.dirname(p)})
        return r

    def stat(self, p, *a, **k):
        p = _p(p)
        if p not in self.files:
            raise PyRaise("FileNotFoundError")
        # modification time = the number of file-system events so far that touched this path; size = total member bytes
        mt = 1 + sum(1 for e in self.log if e[0] in ("write", "rename", "copy") and p in e[1:])
        size = sum(len(n) + len(d) + 30 for n, d in self.files[p])
        return Record("stat_result", {"st_mtime_ns": mt * 10**9, "st_mtime": float(mt), "st_size": size, "st_ino": abs(hash(p)) % 10**6, "st_dev": 1, "st_mode": 0o100644})

    def remove(self, p):
        p = _p(p)
        if p not in self.files:
            raise PyRaise("FileNotFoundError")
        del self.files[p]
        self.log.append(("remove", p))

    def rename(self, a, b):
        a, b = _p(a), _p(b)
        if a not in self.files:
            raise PyRaise("FileNotFoundError")
        self.files[b] = self.files.pop(a)
        self.log.append(("rename", a, b))

    def copy(self, a, b):
        a, b = _p(a), _p(b)
        if a not in self.files:
            raise PyRaise("FileNotFoundError")
        self.files[b] = list(self.files[a])
        self.log.append(("copy", a, b))
        return b


def _setup(repo: Repo, fs: FS):
    from .props.c06 import _fresh_objeval

    oe = _fresh_objeval(repo)
    for mod in ("os", "os.path", "warnings", "zipfile", "shutil", "tempfile"):
        oe.externals[mod] = ModuleRef(mod, oe)
    oe.externals["zipfile.ZipFile"] = Native(fs.zipfile, "ZipFile")
    oe.externals["zipfile.is_zipfile"] = Native(lambda p: _p(p) in fs.files, "is_zipfile")
    oe.externals["pathlib.Path"] = Native(fs.path, "Path")
    oe.externals["os.remove"] = Native(fs.remove, "os.remove")
    oe.externals["os.unlink"] = Native(fs.remove, "os.unlink")
    oe.externals["os.rename"] = Native(fs.rename, "os.rename")
    oe.externals["os.replace"] = Native(fs.rename, "os.replace")
    oe.externals["os.fspath"] = Native(_p, "os.fspath")
    oe.externals["os.stat"] = Native(fs.stat, "os.stat")
    oe.externals["os.path.abspath"] = Native(lambda p: "/cwd/" + _p(p) if not _p(p).startswith("/") else _p(p), "os.path.abspath")
    oe.externals["os.path.realpath"] = oe.externals["os.path.abspath"]
    oe.externals["os.path.getmtime"] = Native(lambda p: fs.stat(p).fields["st_mtime"], "os.path.getmtime")
    oe.externals["os.path.getsize"] = Native(lambda p: fs.stat(p).fields["st_size"], "os.path.getsize")
    oe.externals["os.path.exists"] = Native(lambda p: _p(p) in fs.files, "os.path.exists")
    oe.externals["shutil.move"] = Native(fs.rename, "shutil.move")
    oe.externals["shutil.copy"] = Native(fs.copy, "shutil.copy")
    oe.externals["shutil.copyfile"] = Native(fs.copy, "shutil.copyfile")
    oe.externals["shutil.copy2"] = Native(fs.copy, "shutil.copy2")
    oe.externals["warnings.warn"] = Native(lambda *a, **k: None, "warnings.warn")
    oe.func_overrides["fickling.polyglot.identify_pytorch_file_format"] = Native(lambda *a, **k: ["PyTorch v1.3"], "identify_pytorch_file_format")
    return oe


def _behaviour(model: bytes):
    """(value, calls) of loading a model pickle with CPython's unpickler on stand-ins; None if it does not load."""
    try:
        r, log = _load(model, False)
    except Exception as ex:
        return ("fails", type(ex).__name__)
    return ("ok", r, log)


def archive_world(repo: Repo, mlabel: str, model: bytes, order: int, eager: bool, ops) -> List[Tuple[str, str]]:
    fs = FS({IN: _archive(model, order)})
    oe = _setup(repo, fs)
    wc = repo.cls(W)
    wrappers: Dict[str, Any] = {}

    def wrapper(name):
        if name not in wrappers:
            wrappers[name] = oe.instantiate(wc, [IN], {})
        return wrappers[name]

    if eager:
        for name in sorted({o[1] for o in ops}):
            wrapper(name)
    devs: List[Tuple[str, str]] = []
    done: List[str] = []
    n_inj = 0
    for op in ops:
        if op[0] == "read":
            try:
                wrapper(op[1]).sa_attr("pickled")
            except PyRaise as pe:
                devs.append((f"pickled-raises:{pe.name}", f"[{mlabel}] after `{' ; '.join(done) or 'nothing'}`, reading {op[1]}.pickled raises {pe.name}"))
                return devs
            done.append(f"{op[1]}.pickled")
            continue
        _, wn, overwrite = op
        n_inj += 1
        payload = f"print('payload {n_inj}')" if n_inj != 2 else "print('payload 2', " + ", ".join(f"'{c}'" for c in "abcdefghij" * 10) + ")"  # > 255 bytes
        out = f"scratch/out{n_inj}.pt" if order != 1 else f"scratch/{n_inj}/model.pt"  # order 1: same file name, other directory
        before = {p: list(ms) for p, ms in fs.files.items()}
        s_in = before[IN]
        step = f"{wn}.inject_payload(payload {n_inj}, overwrite={overwrite})"
        hist = "after `" + " ; ".join(done) + "`, " if done else ""
        first = not done or all(d.endswith(".pickled") for d in done)
        kind = "first-injection" if first else "later-injection"
        where = f"[{mlabel}{', wrappers created up front' if eager else ''}] {hist}{step}"
        try:
            wrapper(wn).sa_attr("inject_payload")(payload, out, injection="insertion", overwrite=overwrite)
        except PyRaise as pe:
            devs.append((f"raises:{pe.name}:{kind}", f"{where} raises {pe.name}"))
            return devs
        done.append(step)
        holder = IN if overwrite else out
        if holder not in fs.files:
            devs.append((f"no-output:{kind}:overwrite={overwrite}", f"{where}: no archive at {holder} afterwards (paths: {sorted(fs.files)})"))
            return devs
        a_out = fs.files[holder]
        # ---- the file system
        if not overwrite and fs.files.get(IN) != s_in:
            devs.append((f"input-changed-without-overwrite:{kind}", f"{where}: the input archive is not what it was before the call"))
        if overwrite and out in fs.files:
            devs.append((f"stray-output:{kind}", f"{where}: the output path still exists after the input was replaced"))
        stray = sorted(set(fs.files) - set(before) - {out})
        lost = sorted(set(before) - set(fs.files))
        if stray or lost:
            devs.append((f"other-paths:{kind}", f"{where}: paths created {stray}, paths lost {lost}"))
        for p in before:
            if p not in (IN, out) and p in fs.files and fs.files[p] != before[p]:
                devs.append((f"other-archive-changed:{kind}", f"{where}: the earlier output {p} was rewritten"))
        # ---- the archive
        names_in, names_out = [n for n, _ in s_in], [n for n, _ in a_out]
        if names_out != names_in:
            devs.append((f"member-names:{kind}", f"{where}: members {names_out}, the input has {names_in}"))
            return devs
        m_in = m_out = None
        for (n, d_in), (_, d_out) in zip(s_in, a_out):
            if n in ("archive/data.pkl", "model_v2/data.pkl"):
                m_in, m_out = d_in, d_out
            elif d_in != d_out:
                devs.append((f"member-bytes:{kind}:{n}", f"{where}: member {n} is {d_out[:20]!r}, the input's is {d_in[:20]!r}"))
        # ---- the model pickle
        if m_in is None:
            raise AnalysisError("the world's archive has no model pickle")
        b_in, b_out = _behaviour(m_in), _behaviour(m_out)
        if b_in[0] != "ok":
            raise AnalysisError(f"the world's own model pickle does not load with stand-ins: {b_in}")
        if b_out[0] != "ok":
            devs.append((f"model-pickle-unloadable:{kind}:{b_out[1]}", f"{where}: the emitted model pickle does not load ({b_out[1]})"))
            return devs
        execs_in = [e for e in b_in[2] if e[0] == ("builtins", "exec")]
        execs_out = [e for e in b_out[2] if e[0] == ("builtins", "exec")]
        rest_in = [e for e in b_in[2] if e[0] != ("builtins", "exec")]
        rest_out = [e for e in b_out[2] if e[0] != ("builtins", "exec")]
        new = list(execs_out)
        for e in execs_in:
            hit = next((x for x in new if _strict_eq(list(x[1]), list(e[1]))), None)
            if hit is None:
                devs.append((f"earlier-payload-lost:{kind}", f"{where}: the input's model pickle already runs exec{e[1]!r}; the emitted one no longer does (it runs {[x[1] for x in execs_out]!r})"))
                new = None
                break
            new.remove(hit)
        if new is not None:
            mine = [x for x in new if _strict_eq(list(x[1]), [payload])]
            if len(new) != 1 or len(mine) != 1:
                devs.append((f"payload-count:{kind}:{len(mine)}/{len(new)}", f"{where}: compared with the input's model pickle the emitted one adds {len(new)} exec call(s) {[x[1] for x in new]!r}; exactly one exec of this call's payload is required"))
        if len(rest_in) != len(rest_out) or any(a[0] != b[0] or not _strict_eq(a[1], b[1]) for a, b in zip(rest_in, rest_out)):
            devs.append((f"model-calls-changed:{kind}", f"{where}: the reconstruction calls of the model differ: {[e[0] for e in rest_out][:6]} vs {[e[0] for e in rest_in][:6]}"))
        if not V.same_value(b_in[1], b_out[1]):
            devs.append((f"model-not-equal:{kind}", f"{where}: loading returns {b_out[1]!r:.80}, the input's model is {b_in[1]!r:.80}"))
        if devs:
            return devs  # what follows a broken step is not a world of the property any more
    return devs


def _sequences(n_max: int):
    steps = [("inject", w, ow) for w in ("w1", "w2") for ow in (False, True)] + [("read", "w1"), ("read", "w2")]
    seqs = []
    for n in range(1, n_max + 1):
        for s in itertools.product(steps, repeat=n):
            if not any(o[0] == "inject" for o in s):
                continue
            if s[0][1] != "w1":
                continue  # names are interchangeable: the first wrapper used is w1
            if s[-1][0] == "read":
                continue  # a trailing read decides nothing
            seqs.append(s)
    return seqs


# three-step sequences the quick tier keeps: a wrapper that looked at the file, the file replaced by another wrapper, then the
# first one injecting; and three injections through one wrapper
TARGETED = [(("read", "w1"), ("inject", "w2", True), ("inject", "w1", ow)) for ow in (False, True)] + [(("inject", "w1", a), ("inject", "w1", b), ("inject", "w1", False)) for a in (False, True) for b in (False, True)]


_TREPO = None


def _tchunk(items):
    out = []
    for ml, model, order, eager, ops in items:
        try:
            out.append(("ok", archive_world(_TREPO, ml, model, order, eager, ops)))
        except (Unsupported, AnalysisError) as e:
            out.append(("unsupported", f"{[o[0] + ':' + o[1] for o in ops]} on {ml}: {e}"))
    return out


def explore(repo: Repo, tier: str):
    import multiprocessing as mp
    import os
    from concurrent.futures import ProcessPoolExecutor
    from pathlib import Path

    from .cache import cached, digest

    global _TREPO
    _TREPO = repo
    items = []
    for mi, (ml, model) in enumerate(_models()):
        if mi == 0:
            seqs = _sequences(3 if tier == "thorough" else 2) + ([] if tier == "thorough" else TARGETED)
        elif len(model) > 20000:
            # a big model: the single injections only (its point is the frame bookkeeping, not the call sequences)
            items.append((ml, model, 0, False, (("inject", "w1", False),)))
            items.append((ml, model, 0, False, (("inject", "w1", True), ("inject", "w1", False))))
            continue
        else:
            seqs = _sequences(2 if tier == "thorough" else 1) + ([] if tier == "thorough" else [TARGETED[1], TARGETED[-1]])
        for ops in seqs:
            for eager in (False, True):
                if eager and (len(ops) == 1 or (mi != 0 and tier != "thorough")):
                    continue
                items.append((ml, model, 0, eager, ops))
        for order in (1, 2, 3, 4, 5, 6) if (tier == "thorough" or mi == 0) else (1, 6):
            items.append((ml, model, order, False, (("inject", "w1", False),)))
            items.append((ml, model, order, False, (("inject", "w1", True),)))
            if order in (1, 6):
                items.append((ml, model, order, False, (("inject", "w1", True), ("inject", "w1", False))))
    jobs = min(int(os.environ.get("SA_JOBS", "16")), os.cpu_count() or 1)
    chunks = [items[i::jobs] for i in range(jobs)]

    def compute():
        try:
            with ProcessPoolExecutor(max_workers=jobs, mp_context=mp.get_context("fork")) as ex:
                return list(ex.map(_tchunk, chunks))
        except (OSError, RuntimeError):
            return [_tchunk(c) for c in chunks]

    key = "torchworlds-" + digest(repo, ["fickling.fickle", "fickling.pytorch"], f"{tier}|{jobs}", [Path(__file__), Path(V.__file__)])
    parts = cached(key, compute)
    found: Dict[str, Tuple[int, str]] = {}
    n = 0
    for outs in parts:
        for o in outs:
            n += 1
            if o[0] == "unsupported":
                raise AnalysisError(f"archive worlds: cannot interpret {o[1]}")
            for key_, msg in o[1]:
                c, m = found.get(key_, (0, msg))
                found[key_] = (c + 1, m if len(m) <= len(msg) else msg)
    return found, n
