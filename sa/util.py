"""Small AST helpers shared by the rules."""

from __future__ import annotations

import ast
from typing import Iterable, Iterator, List, Optional, Set, Tuple

from .model import dotted

MUTATORS = {
    "append",
    "extend",
    "insert",
    "pop",
    "remove",
    "clear",
    "update",
    "setdefault",
    "sort",
    "reverse",
    "add",
    "discard",
    "popitem",
    "__setitem__",
    "__delitem__",
    "__iadd__",
    "difference_update",
    "intersection_update",
    "symmetric_difference_update",
    "appendleft",
    "popleft",
    "extendleft",
}


def src(node: ast.AST, limit: int = 90) -> str:
    try:
        s = ast.unparse(node)
    except Exception:
        s = type(node).__name__
    s = " ".join(s.split())
    return s if len(s) <= limit else s[: limit - 3] + "..."


def norm(node: ast.AST) -> str:
    """Normalised source text (whitespace/quote independent) used in finding keys."""
    return " ".join(ast.unparse(node).split())


def walk_no_nested(node: ast.AST) -> Iterator[ast.AST]:
    """ast.walk that does not descend into nested function/class definitions or lambdas."""
    todo = [node]
    first = True
    while todo:
        n = todo.pop()
        if not first and isinstance(n, (ast.FunctionDef, ast.AsyncFunctionDef, ast.Lambda, ast.ClassDef)):
            continue
        first = False
        yield n
        todo.extend(ast.iter_child_nodes(n))


def body_walk(fn: ast.AST) -> Iterator[ast.AST]:
    """All nodes of a function's own body (no nested defs)."""
    body = fn.body if isinstance(fn.body, list) else [fn.body]
    for st in body:
        yield from walk_no_nested_stmt(st)


def walk_no_nested_stmt(st: ast.AST) -> Iterator[ast.AST]:
    if isinstance(st, (ast.FunctionDef, ast.AsyncFunctionDef, ast.Lambda, ast.ClassDef)):
        # the definition statement itself: only decorators/defaults are evaluated here
        for d in getattr(st, "decorator_list", []):
            yield from walk_no_nested(d)
        return
    yield from walk_no_nested(st)


def store_targets(st: ast.stmt) -> List[ast.AST]:
    """Flattened assignment / deletion / aug-assignment targets of one statement."""
    out: List[ast.AST] = []

    def flat(t):
        if isinstance(t, (ast.Tuple, ast.List)):
            for e in t.elts:
                flat(e)
        elif isinstance(t, ast.Starred):
            flat(t.value)
        else:
            out.append(t)

    if isinstance(st, ast.Assign):
        for t in st.targets:
            flat(t)
    elif isinstance(st, (ast.AugAssign, ast.AnnAssign)):
        flat(st.target)
    elif isinstance(st, ast.Delete):
        for t in st.targets:
            flat(t)
    elif isinstance(st, (ast.For, ast.AsyncFor)):
        flat(st.target)
    elif isinstance(st, (ast.With, ast.AsyncWith)):
        for it in st.items:
            if it.optional_vars is not None:
                flat(it.optional_vars)
    return out


def base_of(e: ast.AST) -> ast.AST:
    """Strip subscripts: `a.b[c][d]` -> `a.b`."""
    while isinstance(e, ast.Subscript):
        e = e.value
    return e


def is_attr_of(e: ast.AST, attr: str, recv: Optional[str] = None) -> bool:
    return (
        isinstance(e, ast.Attribute)
        and e.attr == attr
        and (recv is None or dotted(e.value) == recv)
    )


def mutator_calls(node: ast.AST) -> List[Tuple[ast.Call, ast.AST, str]]:
    """(call, receiver-expression, method) for every `<recv>.<mutator>(...)` under node."""
    out = []
    for n in walk_no_nested(node):
        if isinstance(n, ast.Call) and isinstance(n.func, ast.Attribute) and n.func.attr in MUTATORS:
            out.append((n, n.func.value, n.func.attr))
    return out


def const_str(e: ast.AST) -> Optional[str]:
    if isinstance(e, ast.Constant) and isinstance(e.value, str):
        return e.value
    return None


def call_name(c: ast.Call) -> Optional[str]:
    return dotted(c.func)


def kwarg(c: ast.Call, name: str, pos: Optional[int] = None) -> Optional[ast.AST]:
    for k in c.keywords:
        if k.arg == name:
            return k.value
    if pos is not None and len(c.args) > pos and not any(isinstance(a, ast.Starred) for a in c.args[: pos + 1]):
        return c.args[pos]
    return None


def names_in(node: ast.AST) -> Set[str]:
    return {n.id for n in ast.walk(node) if isinstance(n, ast.Name)}


_OPS = {ast.Lt: "<", ast.LtE: "<=", ast.Gt: ">", ast.GtE: ">=", ast.Eq: "==", ast.NotEq: "!=", ast.Is: "is", ast.IsNot: "is not", ast.In: "in", ast.NotIn: "not in"}
_NEG = {"<": ">=", "<=": ">", ">": "<=", ">=": "<", "==": "!=", "!=": "==", "is": "is not", "is not": "is", "in": "not in", "not in": "in"}
_FLIP = {"<": ">", "<=": ">=", ">": "<", ">=": "<=", "==": "==", "!=": "!=", "is": "is", "is not": "is not"}


def cmp_normal(e: ast.AST):
    """(left, op, right) of a single comparison with outer `not`s folded into the operator."""
    neg = False
    while isinstance(e, ast.UnaryOp) and isinstance(e.op, ast.Not):
        neg = not neg
        e = e.operand
    if not (isinstance(e, ast.Compare) and len(e.ops) == 1):
        return None
    op = _OPS.get(type(e.ops[0]))
    if op is None:
        return None
    if neg:
        op = _NEG[op]
    return e.left, op, e.comparators[0]


def cmp_oriented(e: ast.AST, is_left):
    """cmp_normal, flipped if needed so that `is_left(left)` holds; None if neither side qualifies."""
    c = cmp_normal(e)
    if c is None:
        return None
    l, op, r = c
    if is_left(l):
        return l, op, r
    if is_left(r) and op in _FLIP:
        return r, _FLIP[op], l
    return None


def cli_args_name(fn_node: ast.AST) -> str:
    """The local name cli.main binds the parsed command line to (`args = parser.parse_args(...)`), whatever it is called."""
    for n in ast.walk(fn_node):
        if isinstance(n, ast.Assign) and isinstance(n.value, ast.Call) and isinstance(n.value.func, ast.Attribute) and n.value.func.attr in ("parse_args", "parse_known_args") and len(n.targets) == 1 and isinstance(n.targets[0], ast.Name):
            return n.targets[0].id
    return "args"


def canon_func(f, loopvar: str = None, params: dict = None, loop_index: int = 0, rename: dict = None):
    """A copy of FuncInfo `f` whose AST has the target of its `loop_index`-th top-level `for` renamed to `loopvar` and
    the parameters at the given positions renamed (params = {position: canonical name}).  Rules written against the
    canonical spelling thereby hold for any alpha-renaming of those locals.  A canonical name already used for something
    else in the function is left alone (the rule then sees the original spelling)."""
    import copy
    import dataclasses

    node = copy.deepcopy(f.node)
    used = {n.id for n in ast.walk(node) if isinstance(n, ast.Name)} | {a.arg for a in ast.walk(node) if isinstance(a, ast.arg)}
    mapping = {}
    if loopvar:
        loops = [n for n in node.body if isinstance(n, (ast.For, ast.AsyncFor))]
        if len(loops) > loop_index and isinstance(loops[loop_index].target, ast.Name):
            cur = loops[loop_index].target.id
            if cur != loopvar and loopvar not in used:
                mapping[cur] = loopvar
    a = node.args
    plist = a.posonlyargs + a.args
    for pos, want in (params or {}).items():
        if pos < len(plist) and plist[pos].arg != want and want not in used:
            mapping[plist[pos].arg] = want
    for cur, want in (rename or {}).items():
        if cur != want and want not in used:
            mapping[cur] = want
    if not mapping:
        return f
    for n in ast.walk(node):
        if isinstance(n, ast.Name) and n.id in mapping:
            n.id = mapping[n.id]
        elif isinstance(n, ast.arg) and n.arg in mapping:
            n.arg = mapping[n.arg]
    return dataclasses.replace(f, node=node)


def hoist_calls(f, is_target, prefix: str = "_sa_bound"):
    """A copy of FuncInfo `f` in which every call satisfying `is_target(call)` that is *not* already the whole right-hand side of
    `name = call` is bound to a fresh name in a statement of its own, immediately before the simple statement that contains
    it (`g(h(x))` -> `_sa_bound1 = h(x); g(_sa_bound1)`).  Rules that follow 'the object parsed' / 'the result of the check' by
    name thereby hold whether or not the source spells the temporary out.  Calls inside compound-statement headers, lambdas and
    comprehensions are left alone."""
    import copy
    import dataclasses

    node = copy.deepcopy(f.node)
    counter = [0]
    changed = [False]

    def rewrite(stmts):
        out = []
        for st in stmts:
            for fld in ("body", "orelse", "finalbody"):
                v = getattr(st, fld, None)
                if isinstance(v, list) and v and isinstance(v[0], ast.stmt) and not isinstance(st, (ast.FunctionDef, ast.AsyncFunctionDef, ast.ClassDef)):
                    setattr(st, fld, rewrite(v))
            if isinstance(st, ast.Try):
                for h in st.handlers:
                    h.body = rewrite(h.body)
            if isinstance(st, (ast.Expr, ast.Assign, ast.AugAssign, ast.AnnAssign, ast.Return, ast.Raise)):
                direct = st.value if isinstance(st, (ast.Assign, ast.AnnAssign)) and (isinstance(st, ast.AnnAssign) or (len(st.targets) == 1 and isinstance(st.targets[0], ast.Name))) else None
                skip = set()
                for sc in ast.walk(st):
                    if isinstance(sc, (ast.Lambda, ast.ListComp, ast.SetComp, ast.DictComp, ast.GeneratorExp)):
                        skip.update(id(x) for x in ast.walk(sc))
                for c in [c for c in ast.walk(st) if isinstance(c, ast.Call) and c is not direct and id(c) not in skip and is_target(c)]:
                    counter[0] += 1
                    nm = f"{prefix}{counter[0]}"

                    class _R(ast.NodeTransformer):
                        def visit_Call(self, n, _c=c, _nm=nm):
                            if n is _c:
                                return ast.copy_location(ast.Name(_nm, ast.Load()), n)
                            return self.generic_visit(n)

                    out.append(ast.copy_location(ast.Assign(targets=[ast.Name(nm, ast.Store())], value=c, lineno=st.lineno), st))
                    st = _R().visit(st)
                    changed[0] = True
            out.append(st)
        return out

    node.body = rewrite(node.body)
    if not changed[0]:
        return f
    ast.fix_missing_locations(node)
    return dataclasses.replace(f, node=node)
