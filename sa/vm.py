"""E5 -- abstract interpreter for `Opcode.run` bodies over a symbolic pickle-VM state.

Explores every path of the effective `run` of an opcode class (through `StackSliceOpcode`'s
installed wrapper, inherited bodies and helpers that receive the interpreter, inlined to depth 4)
and produces one `PathSummary` per path: stack pops/peeks/pushes with the provenance of each pushed
value, mark consumption, memo reads/writes, statements appended to the module body, in-place
mutations, attribute writes.  Nothing is executed; an idiom the interpreter does not understand
raises `Unrecognised` (-> ANALYSIS-ERROR), it is never guessed.
"""

from __future__ import annotations

import ast
from dataclasses import dataclass, field
from typing import Dict, Iterator, List, Optional, Tuple

from .model import ClassInfo, FuncInfo, OpcodeClass, Repo, dotted
from .report import AnalysisError
from .util import src
from .vmvals import (
    AttrOf,
    Cond,
    Const,
    Fresh,
    FuncRef,
    Item,
    MarkV,
    Mutation,
    ObjRef,
    Seq,
    SliceV,
    StackLen,
    State,
    Unknown,
    Val,
)


class Unrecognised(AnalysisError):
    pass


MAX_DEPTH = 4
MAX_PATHS = 400

LIST_MUTATORS = {"append", "extend", "insert", "add", "update", "remove", "clear", "pop", "sort", "reverse", "setdefault", "discard"}
ITER_FUNCS = {"reversed", "map", "filter", "zip", "iter", "enumerate"}
PURE_BUILTINS = {"len", "str", "int", "bool", "repr", "isinstance", "hasattr", "getattr", "type", "next", "any", "all", "min", "max", "sorted", "bytes", "bytearray", "ord", "chr", "range", "abs", "sum", "id", "format", "float", "issubclass", "callable", "print"}


@dataclass
class PathSummary:
    state: State
    outcome: str  # normal | raise
    ret: Optional[Val] = None
    raise_text: str = ""
    line: int = 0

    # derived ------------------------------------------------------------------------------
    @property
    def net(self) -> int:
        s = self.state
        return len(s.local_stack) - s.pops_top - s.pops_below

    def describe(self) -> str:
        s = self.state
        return (
            f"mark={s.mark_consumed} pops(top)={s.pops_top} pops(below)={s.pops_below} "
            f"pushes={[v.short() for v in s.local_stack]} conds={s.conds}"
        )


class VM:
    def __init__(self, repo: Repo):
        self.repo = repo
        self.fickle = repo.module("fickling.fickle")
        self.interp_cls = repo.cls("fickling.fickle.Interpreter")
        self.paths = 0

    # ================================================================== entry
    def summarise(self, oc: OpcodeClass) -> Tuple[List[PathSummary], FuncInfo, bool]:
        """All paths of the effective `run` of `oc`; also returns the defining function and whether
        the StackSliceOpcode wrapper is in effect."""
        self.paths = 0
        c = oc.cls
        run = self.repo.find_method(c, "run")
        if run is None:
            raise AnalysisError(f"{c.qualname}: no run method resolvable")
        wrapped = self.repo.is_subclass(c, "fickling.fickle.StackSliceOpcode")
        st = State()
        selfv = ObjRef("opcode", c.qualname)
        interp = ObjRef("interpreter")
        out: List[PathSummary] = []
        if wrapped:
            wrapper, orig_name = self._slice_wrapper()
            # each StackSliceOpcode subclass gets the wrapper around the `run` visible at class creation
            n_wrappers = sum(
                1
                for k in self.repo.mro_classes(c)
                if self.repo.is_subclass(k, "fickling.fickle.StackSliceOpcode") and k.qualname != "fickling.fickle.StackSliceOpcode"
            )
            if n_wrappers != 1:
                raise Unrecognised(f"{c.qualname}: {n_wrappers} nested StackSliceOpcode wrappers (run would be wrapped more than once)")
            env = {"self": selfv, "interpreter": interp, orig_name: FuncRef(run), "cls": ObjRef("ref:" + c.qualname)}
            gen = self._call_function(wrapper, [selfv, interp], {}, st, 0, closure=env)
        else:
            gen = self._call_function(run, [selfv, interp], {}, st, 0)
        for st2, flow, val, line in gen:
            if flow == "raise":
                out.append(PathSummary(st2, "raise", None, str(val or ""), line))
            else:
                out.append(PathSummary(st2, "normal", val if flow == "return" else None, "", line))
        return out, run, wrapped

    def _slice_wrapper(self) -> Tuple[FuncInfo, str]:
        ssc = self.repo.cls("fickling.fickle.StackSliceOpcode")
        isc = ssc.method("__init_subclass__")
        if isc is None:
            raise Unrecognised("StackSliceOpcode.__init_subclass__ not found")
        nested = self.repo.nested_of(isc)
        orig_name = None
        for n in ast.walk(isc.node):
            if isinstance(n, ast.Assign) and dotted(n.value) == "cls.run" and isinstance(n.targets[0], ast.Name):
                orig_name = n.targets[0].id
        installed = None
        for n in ast.walk(isc.node):
            if isinstance(n, ast.Call) and dotted(n.func) == "setattr" and len(n.args) == 3 and isinstance(n.args[1], ast.Constant) and n.args[1].value == "run" and isinstance(n.args[2], ast.Name):
                installed = n.args[2].id
            if isinstance(n, ast.Assign) and dotted(n.targets[0]) == "cls.run" and isinstance(n.value, ast.Name):
                installed = n.value.id
        w = next((f for f in nested if f.name == installed), None)
        if w is None or orig_name is None:
            raise Unrecognised("StackSliceOpcode.__init_subclass__: run-wrapper installation idiom not recognised")
        return w, orig_name

    # ================================================================== calls
    def _bind(self, f: FuncInfo, args: List[Val], kwargs: Dict[str, Val], st: State) -> Dict[str, Val]:
        a = f.node.args
        if a.vararg or a.kwarg:
            raise Unrecognised(f"{f.qualname}: *args/**kwargs in an inlined helper")
        names = [x.arg for x in a.posonlyargs + a.args]
        env: Dict[str, Val] = {}
        if len(args) > len(names):
            raise Unrecognised(f"{f.qualname}: too many positional arguments")
        for n, v in zip(names, args):
            env[n] = v
        defaults = list(a.defaults)
        dnames = names[len(names) - len(defaults):] if defaults else []
        for n, d in zip(dnames, defaults):
            if n not in env and n not in kwargs:
                env[n] = self._const_default(d)
        for k, d in zip(a.kwonlyargs, a.kw_defaults):
            if k.arg not in kwargs and d is not None:
                env[k.arg] = self._const_default(d)
        for k, v in kwargs.items():
            if k not in names and k not in [x.arg for x in a.kwonlyargs]:
                raise Unrecognised(f"{f.qualname}: unexpected keyword {k}")
            env[k] = v
        for n in names + [x.arg for x in a.kwonlyargs]:
            if n not in env:
                raise Unrecognised(f"{f.qualname}: parameter {n} unbound")
        return env

    @staticmethod
    def _const_default(d: ast.AST) -> Val:
        if isinstance(d, ast.Constant):
            return Const(d.value)
        return Unknown(why="default")

    def _call_function(self, f: FuncInfo, args, kwargs, st: State, depth: int, closure: Optional[dict] = None):
        """Yields (state, flow, value, line) with flow in {'normal','return','raise'}."""
        if depth > MAX_DEPTH:
            raise Unrecognised(f"inlining deeper than {MAX_DEPTH} at {f.qualname}")
        saved_env = st.env
        env = dict(closure or {})
        env.update(self._bind(f, args, kwargs, st))
        st.env = env
        body = f.node.body if isinstance(f.node.body, list) else [ast.Return(value=f.node.body)]
        frame = {"func": f, "depth": depth}
        for st2, flow, val, line in self._block(body, st, frame):
            if flow in ("break", "continue"):
                raise Unrecognised(f"{f.qualname}: stray {flow}")
            # restore the caller's environment on the way out (per path)
            st2.env = dict(saved_env)
            yield st2, ("normal" if flow == "next" else flow), val, line

    # ================================================================== statements
    def _block(self, stmts, st: State, frame) -> Iterator[Tuple[State, str, Optional[Val], int]]:
        if not stmts:
            yield st, "next", None, 0
            return
        head, rest = stmts[0], stmts[1:]
        for st1, flow, val, line in self._stmt(head, st, frame):
            if flow == "next":
                yield from self._block(rest, st1, frame)
            else:
                yield st1, flow, val, line

    def _guard_paths(self):
        self.paths += 1
        if self.paths > MAX_PATHS:
            raise Unrecognised("path explosion in an opcode handler")

    def _stmt(self, s: ast.stmt, st: State, frame):
        line = getattr(s, "lineno", 0)
        self._cur_env = st.env
        if st.raised is not None:
            yield st, "raise", st.raised[0], st.raised[1]
            return
        for st1, flow, val, l2 in self._stmt_inner(s, st, frame):
            if st1.raised is not None and flow != "raise":
                yield st1, "raise", st1.raised[0], st1.raised[1]
            else:
                yield st1, flow, val, l2

    def _stmt_inner(self, s: ast.stmt, st: State, frame):
        line = getattr(s, "lineno", 0)
        if isinstance(s, ast.Expr):
            if isinstance(s.value, ast.Constant):
                yield st, "next", None, line
                return
            for st1, _ in self._ev(s.value, st, frame):
                yield st1, "next", None, line
            return
        if isinstance(s, ast.Pass):
            yield st, "next", None, line
            return
        if isinstance(s, ast.Return):
            if s.value is None:
                yield st, "return", None, line
                return
            for st1, v in self._ev(s.value, st, frame):
                yield st1, "return", v, line
            return
        if isinstance(s, ast.Raise):
            yield st, "raise", Const(src(s.exc) if s.exc is not None else "re-raise"), line
            return
        if isinstance(s, (ast.Break, ast.Continue)):
            yield st, "break" if isinstance(s, ast.Break) else "continue", None, line
            return
        if isinstance(s, ast.Assign):
            for st1, v in self._ev(s.value, st, frame):
                for t in s.targets:
                    self._assign(t, v, st1, frame, line)
                yield st1, "next", None, line
            return
        if isinstance(s, ast.AnnAssign):
            if s.value is None:
                yield st, "next", None, line
                return
            for st1, v in self._ev(s.value, st, frame):
                self._assign(s.target, v, st1, frame, line)
                yield st1, "next", None, line
            return
        if isinstance(s, ast.AugAssign):
            for st1, v in self._ev(s.value, st, frame):
                self._aug_assign(s, v, st1, frame, line)
                yield st1, "next", None, line
            return
        if isinstance(s, ast.If):
            yield from self._if(s, st, frame)
            return
        if isinstance(s, ast.While):
            yield from self._while(s, st, frame)
            return
        if isinstance(s, ast.For):
            yield from self._for(s, st, frame)
            return
        if isinstance(s, ast.Assert):
            for st1, _ in self._ev(s.test, st, frame):
                yield st1, "next", None, line
            return
        if isinstance(s, (ast.FunctionDef, ast.Import, ast.ImportFrom, ast.Global, ast.Nonlocal)):
            if isinstance(s, ast.FunctionDef):
                st.env[s.name] = Unknown(why="localdef")
            yield st, "next", None, line
            return
        if isinstance(s, ast.Try):
            if not self._touches_vm(s):
                # pure local computation: body, then (alternatively) each handler from the entry state
                st_entry = st.clone()
                for st1, flow, val, l2 in self._block(s.body + s.orelse + s.finalbody, st, frame):
                    yield st1, flow, val, l2
                for h in s.handlers:
                    self._guard_paths()
                    sth = st_entry.clone()
                    sth.conds.append(f"except {src(h.type) if h.type is not None else ''}@{h.lineno}")
                    if h.name:
                        sth.env[h.name] = Unknown(why="exception")
                    yield from self._block(h.body + s.finalbody, sth, frame)
                return
            # the try body touches VM state.  An exception can only be raised by a call that may raise
            # (anything but the stack/memo/module-body primitives, AST constructors and a few total
            # builtins); handlers are explored from the state *before* each top-level body statement
            # that contains such a call (statement granularity).
            def may_raise(stmt: ast.AST) -> bool:
                for n in ast.walk(stmt):
                    if isinstance(n, ast.Call):
                        d = dotted(n.func) or ""
                        last = d.split(".")[-1]
                        if d.startswith("ast.") or d in ("make_constant", "isinstance", "len", "hasattr", "bool", "id", "type", "MarkObject"):
                            continue
                        if isinstance(n.func, ast.Attribute) and self._mentions_vm(n.func.value) and last in ("append", "push"):
                            continue
                        return True
                    if isinstance(n, ast.Subscript) and not isinstance(n.ctx, ast.Store):
                        return True
                return False

            handlers_raise = all(h.body and isinstance(h.body[-1], ast.Raise) and not self._touches_vm(h) for h in s.handlers)
            entry_points: List[State] = []
            cur: List[Tuple[State, str, Optional[Val], int]] = [(st, "next", None, line)]
            for stmt in s.body:
                nxt = []
                for st_c, flow, val, l2 in cur:
                    if flow != "next":
                        nxt.append((st_c, flow, val, l2))
                        continue
                    if may_raise(stmt) and not handlers_raise:
                        entry_points.append(st_c.clone())
                    nxt.extend(self._stmt(stmt, st_c, frame))
                cur = nxt
            for st1, flow, val, l2 in cur:
                if flow == "next":
                    yield from self._block(s.orelse + s.finalbody, st1, frame)
                elif flow == "raise" and not handlers_raise and s.handlers:
                    # an explicit raise inside the body may be caught: continue in the handlers
                    st1.raised = None
                    entry_points.append(st1)
                else:
                    yield st1, flow, val, l2
            if handlers_raise:
                return
            for sth0 in entry_points:
                for h in s.handlers:
                    self._guard_paths()
                    sth = sth0.clone()
                    sth.conds.append(f"except {src(h.type) if h.type is not None else ''}@{h.lineno}")
                    if h.name:
                        sth.env[h.name] = Unknown(why="exception")
                    yield from self._block(h.body + s.finalbody, sth, frame)
            return
        if isinstance(s, ast.With):
            if self._touches_vm(s):
                raise Unrecognised(f"with statement around VM-state operations at line {line}")
            yield from self._block(s.body, st, frame)
            return
        if isinstance(s, ast.Delete):
            for t in s.targets:
                if self._mentions_vm(t):
                    raise Unrecognised(f"del on VM state at line {line}: {src(t)}")
            yield st, "next", None, line
            return
        raise Unrecognised(f"statement {type(s).__name__} at line {line}")

    # ---------------------------------------------------------------- helpers for recognition
    @staticmethod
    def _is_interp_attr(e: ast.AST, attr: str, st: State) -> bool:
        if isinstance(e, ast.Attribute) and e.attr == attr and isinstance(e.value, ast.Name):
            v = st.env.get(e.value.id)
            return isinstance(v, ObjRef) and v.what == "interpreter"
        return False

    def _mentions_vm(self, e: ast.AST) -> bool:
        for n in ast.walk(e):
            if isinstance(n, ast.Attribute) and n.attr in ("stack", "memory", "module_body", "_stack"):
                return True
        return False

    def _only_reads_memo(self, s: ast.AST) -> bool:
        """The statement mentions `interpreter` only through loads of `interpreter.memory` (membership,
        subscript loads, len) -- no stack, module body, stores or method calls on the memo."""
        parents = {}
        for n in ast.walk(s):
            for ch in ast.iter_child_nodes(n):
                parents[ch] = n
        for n in ast.walk(s):
            if isinstance(n, ast.Name) and n.id in self._interp_names():
                p = parents.get(n)
                if not (isinstance(p, ast.Attribute) and p.attr in ("memory", "module_body")):
                    return False
                pp = parents.get(p)
                if isinstance(pp, ast.Attribute):  # interpreter.memory.<method> / interpreter.module_body.<method>
                    ppp = parents.get(pp)
                    if not (isinstance(ppp, ast.Call) and ppp.func is pp and pp.attr in ("items", "keys", "values", "get", "__len__", "__iter__", "index", "count", "copy")):
                        return False
                if isinstance(pp, ast.Subscript) and pp.value is p and not isinstance(pp.ctx, ast.Load):
                    return False
        return True

    def _interp_names(self) -> set:
        env = getattr(self, "_cur_env", {}) or {}
        names = {k for k, v in env.items() if isinstance(v, ObjRef) and v.what in ("interpreter", "stack", "memory", "module_body")}
        return names or {"interpreter"}

    def _touches_vm(self, s: ast.AST) -> bool:
        inames = self._interp_names()
        for n in ast.walk(s):
            if isinstance(n, ast.Name) and n.id in inames:
                return True
            if isinstance(n, ast.Attribute) and n.attr in ("stack", "memory", "module_body"):
                return True
        return False

    # ---------------------------------------------------------------- if
    def _if(self, s: ast.If, st: State, frame):
        for st1, c in self._ev(s.test, st, frame):
            yield from self._branch(c, s.test, s.body, s.orelse, st1, frame)

    def _truth(self, c: Val, st: State) -> Optional[bool]:
        if isinstance(c, Const):
            return bool(c.value)
        if isinstance(c, Seq):
            return bool(st.heap.get(c.uid, []))
        if isinstance(c, Cond) and c.kind == "not" and c.subject is not None:
            t = self._truth(c.subject, st)
            return None if t is None else not t
        if isinstance(c, Cond) and c.kind == "is-none" and c.subject is not None:
            if isinstance(c.subject, Const):
                r = c.subject.value is None
                return (not r) if c.negated else r
            if isinstance(c.subject, (Fresh, Item, Seq, SliceV, ObjRef, MarkV)):
                return bool(c.negated)
        if isinstance(c, Cond) and c.kind == "isinstance" and c.arg == "type" and c.subject is not None and (c.subject.pykind == "node" or isinstance(c.subject, (Item, Fresh, SliceV))):
            # the symbolic stack holds ast nodes and MarkObject instances, never classes
            return bool(c.negated)
        if isinstance(c, Cond) and c.kind == "bool-op" and c.kids:
            ts = [self._truth(k, st) for k in c.kids]
            if c.arg == "or":
                if any(t is True for t in ts):
                    return True
                if all(t is False for t in ts):
                    return False
            else:
                if any(t is False for t in ts):
                    return False
                if all(t is True for t in ts):
                    return True
            return None
        if isinstance(c, (Fresh, Item, ObjRef, MarkV)):
            return True
        return None

    def _branch(self, c: Val, test: ast.AST, body, orelse, st: State, frame):
        t = self._truth(c, st)
        text = src(test, 70)
        if t is True:
            yield from self._block(body, st, frame)
            return
        if t is False:
            yield from self._block(orelse, st, frame)
            return
        self._guard_paths()
        st_else = st.clone()
        st.conds.append(text)
        st_else.conds.append(f"not ({text})")
        if isinstance(c, Cond):
            st.cond_vals.append((c, True))
            st_else.cond_vals.append((c, False))
            if c.kind == "stack-nonempty":
                (st_else if not c.negated else st).assumed_empty = True
        yield from self._block(body, st, frame)
        yield from self._block(orelse, st_else, frame)

    # ---------------------------------------------------------------- loops
    def _pop_call(self, e: ast.AST, st: State) -> bool:
        return (
            isinstance(e, ast.Call)
            and isinstance(e.func, ast.Attribute)
            and e.func.attr == "pop"
            and self._is_interp_attr(e.func.value, "stack", st)
            and not e.args
        )

    def _while(self, s: ast.While, st: State, frame):
        """Only the pop-to-mark idioms are accepted for loops that touch the VM state."""
        line = s.lineno
        if not self._touches_vm(s) or self._only_reads_memo(s):
            # a pure local loop (possibly consulting the memo read-only): summarise (havoc assigned names)
            if self._touches_vm(s):
                st.memo_other.append(("read-in-loop", line))
            yield from self._summary_loop(s.body + s.orelse, None, st, frame)
            return
        pops = [n for n in ast.walk(s) if self._pop_call(n, st)]
        if len(pops) != 1:
            raise Unrecognised(f"while loop at line {line} touches the stack but is not a pop-to-mark idiom ({len(pops)} pops)")
        # the statement binding the popped value
        popvar = None
        for n in s.body:
            if isinstance(n, ast.Assign) and n.value is pops[0] and len(n.targets) == 1 and isinstance(n.targets[0], ast.Name):
                popvar = n.targets[0].id
        if popvar is None:
            raise Unrecognised(f"while loop at line {line}: popped value is not bound by a top-level `x = interpreter.stack.pop()`")
        test_is_stack = self._is_interp_attr(s.test, "stack", st)
        test_is_true = isinstance(s.test, ast.Constant) and s.test.value is True
        if not (test_is_stack or test_is_true):
            raise Unrecognised(f"while loop at line {line}: loop test `{src(s.test)}` not one of the idioms")
        # find the mark break
        mark_break = None
        others: List[ast.stmt] = []
        empty_guard = False
        for n in s.body:
            if isinstance(n, ast.Assign) and n.value is pops[0]:
                continue
            if isinstance(n, ast.If) and self._is_mark_test(n.test, popvar):
                if not (len(n.body) == 1 and isinstance(n.body[0], ast.Break)):
                    raise Unrecognised(f"line {n.lineno}: mark test does not simply break")
                mark_break = n
                others.extend(n.orelse)
                continue
            if isinstance(n, ast.If) and isinstance(n.test, ast.UnaryOp) and isinstance(n.test.op, ast.Not) and self._is_interp_attr(n.test.operand, "stack", st):
                if all(isinstance(x, ast.Raise) for x in n.body) and not n.orelse:
                    empty_guard = True
                    continue
            others.append(n)
        if mark_break is None:
            raise Unrecognised(f"while loop at line {line}: no `if isinstance({popvar}, MarkObject): break`")
        if any(isinstance(x, (ast.Break, ast.Return, ast.Continue)) for o in others for x in ast.walk(o)):
            raise Unrecognised(f"while loop at line {line}: extra break/return/continue in a pop-to-mark loop")
        if test_is_stack:
            if not (s.orelse and all(isinstance(x, ast.Raise) for x in s.orelse)):
                raise Unrecognised(f"while loop at line {line}: `while interpreter.stack` without a raising else")
        elif not empty_guard:
            raise Unrecognised(f"while loop at line {line}: `while True` pop loop without an emptiness guard that raises")
        # order: the pop must come before the mark test and the accumulations
        idx_pop = next(i for i, n in enumerate(s.body) if isinstance(n, ast.Assign) and n.value is pops[0])
        idx_brk = s.body.index(mark_break)
        if idx_pop > idx_brk:
            raise Unrecognised(f"while loop at line {line}: mark test before the pop")
        pre = [o for o in others if o in s.body and s.body.index(o) < idx_brk]
        if pre:
            # statements executed for the mark itself too (before the break): must not accumulate
            for o in pre:
                for n in ast.walk(o):
                    if isinstance(n, ast.Name) and n.id == popvar:
                        raise Unrecognised(f"while loop at line {line}: popped value used before the mark test")
        try:
            st.consume_mark()
        except ValueError as e:
            raise Unrecognised(f"line {line}: {e}")
        elem = SliceV("?", "elem", "node")
        st.env[popvar] = MarkV()  # after the loop the variable holds the mark
        yield from self._summary_loop(others, (popvar, elem, "rev"), st, frame, after_env={popvar: MarkV()})

    @staticmethod
    def _is_mark_test(test: ast.AST, var: str) -> bool:
        return (
            isinstance(test, ast.Call)
            and dotted(test.func) == "isinstance"
            and len(test.args) == 2
            and isinstance(test.args[0], ast.Name)
            and test.args[0].id == var
            and (dotted(test.args[1]) or "").split(".")[-1] == "MarkObject"
        )

    def _for(self, s: ast.For, st: State, frame):
        if self._touches_vm(s) and self._only_reads_memo(s):
            # a read-only scan of the memo / the statements emitted so far
            st.memo_other.append(("read-in-loop", s.lineno)) if any(isinstance(n, ast.Attribute) and n.attr == "memory" for n in ast.walk(s)) else None
            names = [n.id for n in ast.walk(s.target) if isinstance(n, ast.Name)]
            for n in names:
                st.env[n] = Unknown(why="scan-elem")
            yield from self._summary_loop_tolerant(s.body + s.orelse, st)
            return
        if self._touches_vm(s):
            raise Unrecognised(f"for loop at line {s.lineno} touches the VM state (not an idiom the interpreter models)")
        for st1, it in self._ev(s.iter, st, frame):
            elemv: Val
            order = "fwd"
            if "slice" in it.roots():
                elemv = SliceV("?", "elem", "node")
                if isinstance(it, SliceV) and it.order == "rev":
                    order = "rev"
                elif isinstance(it, SliceV) and it.order == "?":
                    order = "?"
            else:
                elemv = Unknown(prov=it.roots(), why="elem")
            names = [n.id for n in ast.walk(s.target) if isinstance(n, ast.Name)]
            binding = None
            for n in names:
                st1.env[n] = elemv
            if "slice" in it.roots():
                binding = (tuple(names), elemv, order)
            yield from self._summary_loop(s.body + s.orelse, binding, st1, frame)

    def _summary_loop_tolerant(self, body, st: State):
        """Havoc every name assigned in a read-only scan loop (returns/breaks inside it are treated as may-happen:
        the value returned is unknown)."""
        for n in body:
            for x in ast.walk(n):
                if isinstance(x, (ast.Assign, ast.AugAssign, ast.AnnAssign)):
                    for t in (x.targets if isinstance(x, ast.Assign) else [x.target]):
                        for y in ast.walk(t):
                            if isinstance(y, ast.Name):
                                st.env[y.id] = Unknown(why="loop-var")
                if isinstance(x, ast.Return):
                    # a value found by scanning: continue on a path where the scan found nothing and one where it
                    # returned something unknown
                    st2 = st.clone()
                    yield st2, "return", Unknown(why="scan-result"), getattr(x, "lineno", 0)
        yield st, "next", None, 0

    def _summary_loop(self, body, binding, st: State, frame, after_env: Optional[dict] = None):
        """Summarise a loop body that does not touch the VM state: accumulations of the loop element
        into local lists become slice-derived lists; other assigned names are havocked."""
        names: Tuple[str, ...] = ()
        elem: Optional[Val] = None
        order = "?"
        if binding is not None:
            n0, elem, order = binding
            names = (n0,) if isinstance(n0, str) else tuple(n0)
            for n in names:
                st.env[n] = elem

        def walk(stmts, conditional: bool):
            for n in stmts:
                if isinstance(n, ast.Expr) and isinstance(n.value, ast.Call) and isinstance(n.value.func, ast.Attribute) and isinstance(n.value.func.value, ast.Name):
                    c = n.value
                    tgt = c.func.value.id
                    meth = c.func.attr
                    tv = st.env.get(tgt)
                    argnames = {x.id for a in c.args for x in ast.walk(a) if isinstance(x, ast.Name)}
                    if meth in ("append", "insert", "add", "extend") and isinstance(tv, (Seq, SliceV)):
                        if argnames & set(names):
                            o = order
                            if meth == "insert":
                                if not (isinstance(c.args[0], ast.Constant) and c.args[0].value == 0):
                                    raise Unrecognised(f"line {n.lineno}: insert at a non-zero index in an accumulation loop")
                                o = {"rev": "fwd", "fwd": "rev"}.get(order, "?")
                            existing = st.heap.get(tv.uid, []) if isinstance(tv, Seq) else None
                            if existing:
                                raise Unrecognised(f"line {n.lineno}: accumulation into a non-empty local list")
                            part = "some" if (conditional or len(names) > 1) else "all"
                            if isinstance(tv, SliceV):
                                part = "some" if tv.part != part else part
                            st.env[tgt] = SliceV(o, part, "list")
                            continue
                        # appending something unrelated to the element: keep as unknown content
                        st.env[tgt] = Unknown(prov=(tv.roots() if tv else frozenset()), pykind="list", why="loop-built")
                        continue
                    raise Unrecognised(f"line {n.lineno}: call `{src(c)}` inside a summarised loop")
                if isinstance(n, ast.Expr) and isinstance(n.value, ast.Call) and isinstance(n.value.func, ast.Attribute) and isinstance(n.value.func.value, ast.Attribute) and n.value.func.attr in ("append", "add") and len(n.value.args) == 1 and not n.value.keywords:
                    # `<node>.<field>.append(<loop element>)` once per element == one extend of that field with the
                    # slice-derived elements, in loop order
                    c = n.value
                    argnames = {x.id for x in ast.walk(c.args[0]) if isinstance(x, ast.Name)}
                    if argnames and argnames <= set(names) and isinstance(c.args[0], ast.Name):
                        res = list(self._ev(c.func.value, st, frame))
                        if len(res) == 1:
                            _, rv = res[0]
                            root, path = self._root_of(rv)
                            if isinstance(root, (Item, Fresh, Unknown, SliceV)) and path:
                                part = "some" if (conditional or len(names) > 1) else "all"
                                st.mutations.append(Mutation(root, path, "extend", SliceV(order, part, "list"), n.lineno))
                                continue
                    raise Unrecognised(f"line {n.lineno}: call `{src(c)}` inside a summarised loop")
                if isinstance(n, (ast.Assign, ast.AugAssign, ast.AnnAssign)):
                    tgts = n.targets if isinstance(n, ast.Assign) else [n.target]
                    for t in tgts:
                        for x in ast.walk(t):
                            if isinstance(x, ast.Name):
                                st.env[x.id] = Unknown(why="loop-var", pykind="unknown")
                            elif isinstance(x, (ast.Attribute, ast.Subscript)):
                                raise Unrecognised(f"line {n.lineno}: store to `{src(x)}` inside a summarised loop")
                    continue
                if isinstance(n, ast.If):
                    walk(n.body, True)
                    walk(n.orelse, True)
                    continue
                if isinstance(n, (ast.Pass, ast.Continue)):
                    continue
                if isinstance(n, ast.Raise):
                    continue
                if isinstance(n, ast.Expr) and isinstance(n.value, ast.Constant):
                    continue
                raise Unrecognised(f"line {getattr(n, 'lineno', 0)}: statement {type(n).__name__} inside a summarised loop")

        walk(body, False)
        if after_env:
            st.env.update(after_env)
        yield st, "next", None, 0

    # ---------------------------------------------------------------- assignment
    def _assign(self, t: ast.AST, v: Val, st: State, frame, line: int):
        if isinstance(t, ast.Name):
            st.env[t.id] = v
            return
        if isinstance(t, (ast.Tuple, ast.List)):
            elems = st.heap.get(v.uid) if isinstance(v, Seq) else None
            starred = any(isinstance(e, ast.Starred) for e in t.elts)
            for i, e in enumerate(t.elts):
                if isinstance(e, ast.Starred):
                    self._assign(e.value, Unknown(prov=v.roots(), why="unpack*"), st, frame, line)
                elif elems is not None and not starred and i < len(elems):
                    self._assign(e, elems[i], st, frame, line)
                else:
                    self._assign(e, Unknown(prov=v.roots(), why="unpack"), st, frame, line)
            return
        if isinstance(t, ast.Subscript):
            # interpreter.memory[K] = V
            if self._is_interp_attr(t.value, "memory", st):
                kvs = list(self._ev(t.slice, st, frame))
                if len(kvs) != 1:
                    raise Unrecognised(f"line {line}: branching memo key")
                st.memo_writes.append((kvs[0][1], v, line))
                return
            if self._mentions_vm(t):
                raise Unrecognised(f"line {line}: store to `{src(t)}`")
            basevs = list(self._ev(t.value, st, frame))
            if len(basevs) != 1:
                raise Unrecognised(f"line {line}: branching subscript base")
            base = basevs[0][1]
            root, path = self._root_of(base)
            st.mutations.append(Mutation(root, path + "[]", "setitem", v, line))
            return
        if isinstance(t, ast.Attribute):
            basevs = list(self._ev(t.value, st, frame))
            if len(basevs) != 1:
                raise Unrecognised(f"line {line}: branching attribute base")
            base = basevs[0][1]
            if isinstance(base, ObjRef) and base.what == "interpreter":
                if t.attr in ("stack", "memory", "module_body"):
                    raise Unrecognised(f"line {line}: handler rebinds interpreter.{t.attr}")
                st.interp_writes.append((t.attr, line))
                st.env[f"<interp>.{t.attr}"] = v
                return
            if isinstance(base, ObjRef) and base.what == "opcode":
                st.self_writes.append((t.attr, line))
                return
            root, path = self._root_of(base)
            st.mutations.append(Mutation(root, (path + "." if path else "") + t.attr, "assign", v, line))
            return
        raise Unrecognised(f"line {line}: assignment target {type(t).__name__}")

    def _aug_assign(self, s: ast.AugAssign, v: Val, st: State, frame, line: int):
        t = s.target
        if isinstance(t, ast.Name):
            old = st.env.get(t.id)
            if isinstance(old, Seq) and isinstance(s.op, ast.Add):
                # list += something: contents extended
                add = st.heap.get(v.uid, None) if isinstance(v, Seq) else None
                if add is not None:
                    st.heap.setdefault(old.uid, []).extend(add)
                else:
                    st.heap.setdefault(old.uid, []).append(Unknown(prov=v.roots(), why="+=", kids=(v,)))
                return
            st.env[t.id] = Unknown(prov=(old.roots() if old else frozenset()) | v.roots(), why="augassign", pykind=(old.pykind if old else "unknown"))
            return
        if isinstance(t, ast.Attribute):
            basevs = list(self._ev(t.value, st, frame))
            base = basevs[0][1]
            if isinstance(base, ObjRef) and base.what == "interpreter":
                st.interp_writes.append((t.attr, line))
                return
            if isinstance(base, ObjRef) and base.what == "opcode":
                st.self_writes.append((t.attr, line))
                return
            root, path = self._root_of(base)
            st.mutations.append(Mutation(root, (path + "." if path else "") + t.attr, "augassign", v, line))
            return
        if isinstance(t, ast.Subscript) and self._is_interp_attr(t.value, "memory", st):
            st.memo_other.append(("augassign", line))
            return
        raise Unrecognised(f"line {line}: augmented assignment to {src(t)}")

    @staticmethod
    def _root_of(v: Val) -> Tuple[Val, str]:
        path = []
        while isinstance(v, AttrOf):
            path.append(v.attr)
            v = v.base
        return v, ".".join(reversed(path))

    # ================================================================== expressions
    def _ev_list(self, exprs: List[ast.AST], st: State, frame) -> Iterator[Tuple[State, List[Val]]]:
        if not exprs:
            yield st, []
            return
        for st1, v in self._ev(exprs[0], st, frame):
            for st2, rest in self._ev_list(exprs[1:], st1, frame):
                yield st2, [v] + rest

    def _ev(self, e: ast.AST, st: State, frame) -> Iterator[Tuple[State, Val]]:
        line = getattr(e, "lineno", 0)
        if isinstance(e, ast.Constant):
            yield st, Const(e.value)
            return
        if isinstance(e, ast.Name):
            if e.id in st.env:
                yield st, st.env[e.id]
                return
            q = self.repo.resolve_expr(frame["func"].module, e)
            yield st, ObjRef("ref:" + (q or e.id))
            return
        if isinstance(e, ast.JoinedStr):
            kids = []
            cur = st
            vals = [v.value for v in e.values if isinstance(v, ast.FormattedValue)]
            for st1, vs in self._ev_list(vals, st, frame):
                yield st1, Unknown(prov=frozenset().union(*[v.roots() for v in vs]) if vs else frozenset(), pykind="str", why="fstr", kids=tuple(vs))
            return
        if isinstance(e, (ast.Tuple, ast.List, ast.Set)):
            if any(isinstance(x, ast.Starred) for x in e.elts):
                inner = [x.value if isinstance(x, ast.Starred) else x for x in e.elts]
                for st1, vs in self._ev_list(inner, st, frame):
                    yield st1, Unknown(prov=frozenset().union(*[v.roots() for v in vs]), pykind="tuple" if isinstance(e, ast.Tuple) else "list", why="starred-display", kids=tuple(vs))
                return
            for st1, vs in self._ev_list(list(e.elts), st, frame):
                kind = "tuple" if isinstance(e, ast.Tuple) else "list" if isinstance(e, ast.List) else "set"
                s = Seq(kind)
                st1.heap[s.uid] = list(vs)
                yield st1, s
            return
        if isinstance(e, ast.Dict):
            ks = [k for k in e.keys if k is not None]
            for st1, vs in self._ev_list(ks + list(e.values), st, frame):
                yield st1, Unknown(prov=frozenset().union(*[v.roots() for v in vs]) if vs else frozenset(), pykind="dict", why="dict-display", kids=tuple(vs))
            return
        if isinstance(e, ast.Attribute):
            yield from self._ev_attr(e, st, frame)
            return
        if isinstance(e, ast.Subscript):
            yield from self._ev_subscript(e, st, frame)
            return
        if isinstance(e, ast.Call):
            yield from self._ev_call(e, st, frame)
            return
        if isinstance(e, ast.UnaryOp):
            for st1, v in self._ev(e.operand, st, frame):
                if isinstance(e.op, ast.Not):
                    if isinstance(v, Cond) and v.kind in ("stack-nonempty", "isinstance", "is-none"):
                        yield st1, Cond(f"not {v.text}", v.kind, v.subject, v.arg, not v.negated)
                    else:
                        yield st1, Cond(f"not {v.short()}", "not", v)
                elif isinstance(v, Const) and isinstance(v.value, (int, float)) and isinstance(e.op, ast.USub):
                    yield st1, Const(-v.value)
                else:
                    yield st1, Unknown(prov=v.roots(), why="unary")
            return
        if isinstance(e, ast.BoolOp):
            # evaluate operands left to right; short-circuit only on decidable truth
            yield from self._ev_boolop(e, list(e.values), st, frame)
            return
        if isinstance(e, ast.Compare):
            for st1, vs in self._ev_list([e.left] + list(e.comparators), st, frame):
                if len(e.ops) == 1 and isinstance(e.ops[0], (ast.Is, ast.IsNot)) and isinstance(vs[1], Const) and vs[1].value is None:
                    yield st1, Cond(src(e, 60), "is-none", vs[0], "", isinstance(e.ops[0], ast.IsNot), node=e)
                elif len(e.ops) == 1 and isinstance(e.ops[0], (ast.Eq, ast.NotEq)) and isinstance(vs[0], StackLen) and isinstance(vs[1], Const) and vs[1].value == 0:
                    yield st1, Cond(src(e, 60), "stack-nonempty", None, "", isinstance(e.ops[0], ast.Eq))
                elif all(isinstance(v, Const) for v in vs) and len(e.ops) == 1 and isinstance(e.ops[0], (ast.Eq, ast.NotEq, ast.Lt, ast.Gt, ast.LtE, ast.GtE)):
                    import operator as op
                    fn = {ast.Eq: op.eq, ast.NotEq: op.ne, ast.Lt: op.lt, ast.Gt: op.gt, ast.LtE: op.le, ast.GtE: op.ge}[type(e.ops[0])]
                    try:
                        yield st1, Const(fn(vs[0].value, vs[1].value))
                    except TypeError:
                        yield st1, Cond(src(e, 60), "other", kids=tuple(vs), node=e)
                else:
                    yield st1, Cond(src(e, 60), "other", kids=tuple(vs), node=e)
            return
        if isinstance(e, ast.BinOp):
            for st1, vs in self._ev_list([e.left, e.right], st, frame):
                l, r = vs
                if isinstance(l, StackLen) and isinstance(r, Const) and isinstance(r.value, int) and isinstance(e.op, (ast.Sub, ast.Add)):
                    yield st1, StackLen(l.delta + (r.value if isinstance(e.op, ast.Add) else -r.value))
                elif isinstance(l, Const) and isinstance(r, Const):
                    try:
                        import operator as op
                        fn = {ast.Add: op.add, ast.Sub: op.sub, ast.Mult: op.mul, ast.Mod: op.mod, ast.FloorDiv: op.floordiv}.get(type(e.op))
                        yield st1, Const(fn(l.value, r.value)) if fn else Unknown(why="binop")
                    except Exception:
                        yield st1, Unknown(why="binop")
                elif isinstance(e.op, ast.Add) and (l.pykind in ("list", "tuple") or r.pykind in ("list", "tuple")):
                    yield st1, Unknown(prov=l.roots() | r.roots(), pykind=l.pykind if l.pykind in ("list", "tuple") else r.pykind, why="concat", kids=(l, r))
                else:
                    yield st1, Unknown(prov=l.roots() | r.roots(), why="binop", kids=(l, r))
            return
        if isinstance(e, ast.IfExp):
            for st1, c in self._ev(e.test, st, frame):
                t = self._truth(c, st1)
                if t is True:
                    yield from self._ev(e.body, st1, frame)
                elif t is False:
                    yield from self._ev(e.orelse, st1, frame)
                else:
                    self._guard_paths()
                    st2 = st1.clone()
                    st1.conds.append(src(e.test, 60))
                    st2.conds.append(f"not ({src(e.test, 60)})")
                    yield from self._ev(e.body, st1, frame)
                    yield from self._ev(e.orelse, st2, frame)
            return
        if isinstance(e, (ast.ListComp, ast.GeneratorExp, ast.SetComp, ast.DictComp)):
            if self._touches_vm(e) and self._only_reads_memo(e):
                # a read-only scan of the memo / the statements emitted so far: its value is unknown data
                if any(isinstance(n, ast.Attribute) and n.attr == "memory" for n in ast.walk(e)):
                    st.memo_other.append(("read-in-comprehension", line))
                kind = {"ListComp": "list", "GeneratorExp": "iterator", "SetComp": "set", "DictComp": "dict"}[type(e).__name__]
                yield st, Unknown(pykind=kind, why="scan-result")
                return
            if self._touches_vm(e):
                raise Unrecognised(f"line {line}: comprehension over VM state")
            # evaluate the first iterable for provenance
            for st1, it in self._ev(e.generators[0].iter, st, frame):
                kind = {"ListComp": "list", "GeneratorExp": "iterator", "SetComp": "set", "DictComp": "dict"}[type(e).__name__]
                if isinstance(it, SliceV):
                    yield st1, it.derive(pykind=kind, part="some" if e.generators[0].ifs else it.part)
                else:
                    yield st1, Unknown(prov=it.roots(), pykind=kind, why="comprehension", kids=(it,))
            return
        if isinstance(e, ast.Starred):
            for st1, v in self._ev(e.value, st, frame):
                yield st1, v
            return
        if isinstance(e, ast.Lambda):
            yield st, Unknown(why="lambda")
            return
        if isinstance(e, ast.NamedExpr):
            for st1, v in self._ev(e.value, st, frame):
                st1.env[e.target.id] = v
                yield st1, v
            return
        raise Unrecognised(f"line {line}: expression {type(e).__name__}")

    def _ev_boolop(self, e: ast.BoolOp, values, st: State, frame):
        is_and = isinstance(e.op, ast.And)
        head, rest = values[0], values[1:]
        for st1, v in self._ev(head, st, frame):
            t = self._truth(v, st1)
            if not rest:
                yield st1, v
                continue
            if t is not None and (t is False) == is_and:
                yield st1, v  # short-circuit
                continue
            if t is not None:
                yield from self._ev_boolop(e, rest, st1, frame)
                continue
            # undecidable: the remaining operands may or may not be evaluated; they must be pure
            for r in rest:
                if self._touches_vm(r) and any(self._pop_call(n, st1) or (isinstance(n, ast.Call) and isinstance(n.func, ast.Attribute) and n.func.attr in ("append", "push", "new_variable")) for n in ast.walk(r)):
                    raise Unrecognised(f"line {getattr(e, 'lineno', 0)}: VM-state effect inside a short-circuit operand")
            for st2, vs in self._ev_list(rest, st1, frame):
                yield st2, Cond(src(e, 70), "bool-op", None, "and" if is_and else "or", False, tuple([v] + vs), node=e)

    # ---------------------------------------------------------------- attribute
    def _attr_value(self, base: Val, attr: str, st: State) -> Val:
        """Value of `<base>.<attr>` without side effects (property getters of the interpreter are
        handled by _ev_attr)."""
        if isinstance(base, ObjRef):
            if base.what == "interpreter":
                if attr in ("stack", "memory", "module_body"):
                    return ObjRef(attr)
                key = f"<interp>.{attr}"
                if key in st.env:
                    return st.env[key]
                return Unknown(why=f"interp.{attr}", pykind="unknown")
            if base.what == "opcode":
                return Unknown(prov=frozenset(["arg"]), why=f"self.{attr}")
            if base.what == "stack":
                if attr == "opcode":
                    return Unknown(why="stack.opcode")
                return ObjRef(f"stack.{attr}")
            if base.what in ("memory", "module_body"):
                return ObjRef(f"{base.what}.{attr}")
            if base.what.startswith("ref:"):
                return ObjRef(f"{base.what}.{attr}")
            return Unknown(why=f"{base.what}.{attr}")
        if isinstance(base, Fresh) and attr in base.fields:
            return base.fields[attr]
        kind = "unknown"
        if attr in ("elts", "keys", "values", "args", "keywords", "names", "body", "targets"):
            kind = "list"
        elif attr in ("func", "slice", "left"):
            kind = "node"
        return AttrOf(base, attr, kind)

    def _ev_attr(self, e: ast.Attribute, st: State, frame):
        for st1, base in self._ev(e.value, st, frame):
            if isinstance(base, ObjRef) and base.what == "interpreter" and e.attr not in ("stack", "memory", "module_body") and f"<interp>.{e.attr}" not in st1.env:
                p = self.repo.find_method(self.interp_cls, e.attr, "property")
                if p is not None:
                    for st2, flow, val, l2 in self._call_function(p, [base], {}, st1, frame["depth"] + 1):
                        if flow == "raise":
                            st2.raised = (val, l2)
                            yield st2, Unknown(why="raised")
                        else:
                            yield st2, val if val is not None else Const(None)
                    continue
            if isinstance(base, ObjRef) and base.what == "opcode" and base.cls in self.repo.classes:
                p = self.repo.find_method(self.repo.classes[base.cls], e.attr, "property")
                if p is not None and frame["depth"] < MAX_DEPTH:
                    for st2, flow, val, l2 in self._call_function(p, [base], {}, st1, frame["depth"] + 1):
                        if flow == "raise":
                            st2.raised = (val, l2)
                            yield st2, Unknown(why="raised")
                        else:
                            yield st2, val if val is not None else Const(None)
                    continue
            yield st1, self._attr_value(base, e.attr, st1)

    # ---------------------------------------------------------------- subscript
    def _ev_subscript(self, e: ast.Subscript, st: State, frame):
        line = e.lineno
        for st1, base in self._ev(e.value, st, frame):
            if isinstance(base, ObjRef) and base.what == "stack":
                for st2, idx in self._ev(e.slice, st1, frame):
                    if (isinstance(idx, Const) and idx.value == -1) or (isinstance(idx, StackLen) and idx.delta == -1):
                        yield st2, st2.peek()
                    else:
                        raise Unrecognised(f"line {line}: stack index `{src(e.slice)}` other than top-of-stack")
                continue
            if isinstance(base, ObjRef) and base.what == "memory":
                for st2, k in self._ev(e.slice, st1, frame):
                    st2.memo_reads.append((k, line))
                    yield st2, Unknown(prov=frozenset(["memo"]), pykind="node", why="memo")
                continue
            if isinstance(e.slice, ast.Slice):
                sl = e.slice
                def cv(x):
                    return None if x is None else (x.value if isinstance(x, ast.Constant) else (-x.operand.value if isinstance(x, ast.UnaryOp) and isinstance(x.op, ast.USub) and isinstance(x.operand, ast.Constant) else "?"))
                lo, hi, step = cv(sl.lower), cv(sl.upper), cv(sl.step)
                if isinstance(base, SliceV):
                    if (lo, hi, step) == (None, None, -1):
                        yield st1, base.derive(order={"fwd": "rev", "rev": "fwd"}.get(base.order, "?"))
                    elif (lo, hi, step) == (None, None, None):
                        yield st1, base.derive()
                    else:
                        yield st1, base.derive(part="some")
                    continue
                if isinstance(base, Seq):
                    items = st1.heap.get(base.uid, [])
                    if "?" not in (lo, hi, step):
                        s = Seq(base.pykind)
                        st1.heap[s.uid] = items[slice(lo, hi, step)]
                        yield st1, s
                        continue
                yield st1, Unknown(prov=base.roots(), pykind=base.pykind if base.pykind in ("list", "tuple", "str", "bytes") else "unknown", why="slice", kids=(base,))
                continue
            for st2, idx in self._ev(e.slice, st1, frame):
                if isinstance(base, Seq) and isinstance(idx, Const) and isinstance(idx.value, int):
                    items = st2.heap.get(base.uid, [])
                    if -len(items) <= idx.value < len(items):
                        yield st2, items[idx.value]
                        continue
                if isinstance(base, SliceV):
                    yield st2, SliceV("?", "elem", "node")
                    continue
                yield st2, Unknown(prov=base.roots() | idx.roots(), why="index", kids=(base,))

    # ---------------------------------------------------------------- calls
    def _ev_call(self, e: ast.Call, st: State, frame):
        line = e.lineno
        f = e.func
        # ---- stack primitives (recognised syntactically before evaluating the callee)
        if isinstance(f, ast.Attribute) and self._is_interp_attr(f.value, "stack", st):
            if f.attr == "pop":
                if e.args or e.keywords:
                    raise Unrecognised(f"line {line}: stack.pop with arguments")
                yield st, st.pop()
                return
            if f.attr in ("append", "push"):
                if len(e.args) != 1 or e.keywords:
                    raise Unrecognised(f"line {line}: stack.{f.attr} arity")
                for st1, v in self._ev(e.args[0], st, frame):
                    st1.push(v, line)
                    yield st1, Const(None)
                return
            raise Unrecognised(f"line {line}: stack operation `.{f.attr}` is not modelled")
        if isinstance(f, ast.Attribute) and self._is_interp_attr(f.value, "module_body", st):
            if f.attr == "append" and len(e.args) == 1:
                for st1, v in self._ev(e.args[0], st, frame):
                    st1.sinks.append((v, line))
                    yield st1, Const(None)
                return
            if f.attr == "extend" and len(e.args) == 1:
                for st1, v in self._ev(e.args[0], st, frame):
                    items = st1.heap.get(v.uid) if isinstance(v, Seq) else None
                    if items is None:
                        raise Unrecognised(f"line {line}: module_body.extend of a non-literal")
                    for it in items:
                        st1.sinks.append((it, line))
                    yield st1, Const(None)
                return
            # any other operation on the module body (a helper that edits or removes emitted statements, a
            # read of its length, ...): recorded for the rules to judge, arguments evaluated for their effects
            for st1, vs in self._ev_list([a.value if isinstance(a, ast.Starred) else a for a in e.args] + [k.value for k in e.keywords], st, frame):
                st1.body_other.append((f.attr, line))
                yield st1, Unknown(why=f"module_body.{f.attr}()")
            return
        if isinstance(f, ast.Attribute) and self._is_interp_attr(f.value, "memory", st):
            if f.attr in ("get", "__getitem__") and e.args:
                for st1, vs in self._ev_list(list(e.args), st, frame):
                    st1.memo_reads.append((vs[0], line))
                    yield st1, Unknown(prov=frozenset(["memo"]), pykind="node", why="memo")
                return
            if f.attr in ("keys", "values", "items", "copy"):
                yield st, Unknown(prov=frozenset(["memo"]), why="memo-view")
                return
            if f.attr in ("__setitem__", "setdefault") and len(e.args) == 2:
                for st1, vs in self._ev_list(list(e.args), st, frame):
                    st1.memo_writes.append((vs[0], vs[1], line))
                    yield st1, Const(None)
                return
            st.memo_other.append((f.attr, line))
            yield st, Unknown(why="memo-op")
            return
        dn = dotted(f)
        if dn == "len" and len(e.args) == 1:
            if self._is_interp_attr(e.args[0], "stack", st):
                yield st, StackLen(0)
                return
            if self._is_interp_attr(e.args[0], "memory", st):
                yield st, Unknown(why="len(memory)", pykind="int", prov=frozenset(["memo-len"]))
                return
        if dn in ("bool",) and len(e.args) == 1 and self._is_interp_attr(e.args[0], "stack", st):
            yield st, Cond("interpreter.stack", "stack-nonempty")
            return
        # ---- evaluate callee (receiver first, once) and arguments
        if isinstance(f, ast.Attribute):
            callee_gen = ((s1, self._attr_value(b, f.attr, s1), b) for s1, b in self._ev(f.value, st, frame))
        else:
            callee_gen = ((s1, v, None) for s1, v in self._ev(f, st, frame))
        for st1, fv, rv in callee_gen:
            args_e = list(e.args)
            kw_e = [k for k in e.keywords]
            if any(k.arg is None for k in kw_e):
                raise Unrecognised(f"line {line}: **kwargs in a call inside a handler")
            for st2, vs in self._ev_list([a.value if isinstance(a, ast.Starred) else a for a in args_e] + [k.value for k in kw_e], st1, frame):
                pos = vs[: len(args_e)]
                kws = {k.arg: v for k, v in zip(kw_e, vs[len(args_e):])}
                starred = any(isinstance(a, ast.Starred) for a in args_e)
                yield from self._apply(e, fv, rv, pos, kws, starred, st2, frame)

    def _apply(self, e: ast.Call, fv: Val, rv: Optional[Val], pos: List[Val], kws: Dict[str, Val], starred: bool, st: State, frame):
        line = e.lineno
        depth = frame["depth"]
        f = e.func
        allv = pos + list(kws.values())
        prov = frozenset().union(*[v.roots() for v in allv]) if allv else frozenset()
        # ---- local function reference (orig_run)
        if isinstance(fv, FuncRef):
            if starred:
                raise Unrecognised(f"line {line}: starred call of a helper")
            for st2, flow, val, l2 in self._call_function(fv.func, pos, kws, st, depth + 1):
                if flow == "raise":
                    st2.raised = (val, l2)
                    yield st2, Unknown(why="raised")
                else:
                    yield st2, val if val is not None else Const(None)
            return
        name = fv.what if isinstance(fv, ObjRef) else ""
        # ---- interpreter methods: inline
        if isinstance(f, ast.Attribute):
            if isinstance(rv, ObjRef) and rv.what == "interpreter":
                m = self.repo.find_method(self.interp_cls, f.attr)
                if m is None:
                    raise Unrecognised(f"line {line}: interpreter.{f.attr} does not exist")
                if f.attr in ("run", "step", "to_ast", "interpret"):
                    raise Unrecognised(f"line {line}: handler re-enters the interpreter via {f.attr}")
                for st2, flow, val, l2 in self._call_function(m, [rv] + pos, kws, st, depth + 1):
                    if flow == "raise":
                        st2.raised = (val, l2)
                        yield st2, Unknown(why="raised")
                    else:
                        yield st2, val if val is not None else Const(None)
                return
            if isinstance(rv, ObjRef) and rv.what == "opcode":
                cls = self.repo.classes.get(rv.cls or "")
                m = self.repo.find_method(cls, f.attr) if cls else None
                if m is not None and any(isinstance(v, ObjRef) and v.what == "interpreter" for v in allv):
                    args = pos if m.kind == "staticmethod" else [rv] + pos
                    for st2, flow, val, l2 in self._call_function(m, args, kws, st, depth + 1):
                        if flow == "raise":
                            st2.raised = (val, l2)
                            yield st2, Unknown(why="raised")
                        else:
                            yield st2, val if val is not None else Const(None)
                    return
                yield st, Unknown(prov=prov | frozenset(["arg"]), why=f"self.{f.attr}()")
                return
            # ---- method call on a local value
            if rv is not None and not isinstance(rv, ObjRef):
                yield from self._method_on_value(e, rv, f.attr, pos, kws, st, frame)
                return
        # ---- module-level helper that receives the interpreter: inline
        if name.startswith("ref:"):
            q = name[4:]
            target = self.repo.lookup(q)
            if isinstance(target, FuncInfo) and any(isinstance(v, ObjRef) and v.what in ("interpreter", "stack", "memory", "module_body") for v in allv):
                for st2, flow, val, l2 in self._call_function(target, pos, kws, st, depth + 1):
                    if flow == "raise":
                        st2.raised = (val, l2)
                        yield st2, Unknown(why="raised")
                    else:
                        yield st2, val if val is not None else Const(None)
                return
            if any(isinstance(v, ObjRef) and v.what in ("interpreter", "stack", "memory", "module_body") for v in allv):
                pure_views = ("isinstance", "len", "bool", "id", "repr", "str", "print", "type", "hasattr", "max", "min", "sorted", "list", "tuple", "dict", "set", "any", "all", "enumerate", "iter", "sum")
                only_memo = all(v.what == "memory" for v in allv if isinstance(v, ObjRef) and v.what in ("interpreter", "stack", "memory", "module_body"))
                if q.startswith("builtins.") and q.split(".")[-1] in pure_views and only_memo:
                    yield st, Unknown(prov=prov | frozenset(["memo-view"]), why=f"{q.split('.')[-1]}(memory)", kids=tuple(allv))
                    return
                if q.split(".")[-1] not in ("isinstance", "len", "bool", "id", "repr", "str", "print", "type", "hasattr"):
                    raise Unrecognised(f"line {line}: VM state passed to unresolvable callee {q}")
            # AST constructors
            if q.startswith("ast.") or q == "fickling.fickle.make_constant":
                cls = "ast.Constant" if q.endswith("make_constant") else q
                node_cls = getattr(ast, cls.split(".", 1)[1], None)
                if node_cls is not None and isinstance(node_cls, type) and issubclass(node_cls, ast.AST):
                    if starred:
                        raise Unrecognised(f"line {line}: starred arguments to {cls}")
                    fields = {}
                    fnames = list(node_cls._fields)
                    if len(pos) > len(fnames):
                        raise Unrecognised(f"line {line}: too many positional arguments to {cls}")
                    for n, v in zip(fnames, pos):
                        fields[n] = v
                    for k, v in kws.items():
                        fields[k] = v
                    yield st, Fresh(cls, fields, line)
                    return
            if q.endswith(".MarkObject"):
                yield st, MarkV()
                return
            last = q.split(".")[-1]
            if q.startswith("builtins."):
                if last in ("list", "tuple", "set", "frozenset", "sorted") and len(pos) <= 1:
                    if not pos:
                        s = Seq(last if last in ("list", "tuple", "set") else "list")
                        st.heap[s.uid] = []
                        yield st, s
                        return
                    a = pos[0]
                    kind = "list" if last == "sorted" else last
                    if isinstance(a, SliceV):
                        yield st, a.derive(pykind=kind)
                    elif isinstance(a, Seq):
                        s = Seq(kind)
                        st.heap[s.uid] = list(st.heap.get(a.uid, []))
                        yield st, s
                    else:
                        yield st, Unknown(prov=a.roots(), pykind=kind, why=last, kids=(a,))
                    return
                if last in ITER_FUNCS:
                    a = pos[-1] if pos else None
                    if last == "reversed" and isinstance(a, SliceV):
                        yield st, a.derive(pykind="iterator", order={"fwd": "rev", "rev": "fwd"}.get(a.order, "?"))
                    elif last == "zip" and pos and all(isinstance(p, SliceV) for p in pos):
                        yield st, SliceV(pos[0].order, "all" if len(pos) > 1 else pos[0].part, "iterator")
                    elif isinstance(a, SliceV):
                        yield st, a.derive(pykind="iterator")
                    else:
                        yield st, Unknown(prov=prov, pykind="iterator", why=last, kids=tuple(pos))
                    return
                if last == "isinstance" and len(pos) == 2:
                    cls_txt = src(e.args[1], 40)
                    yield st, Cond(src(e, 60), "isinstance", pos[0], cls_txt, node=e)
                    return
                if last == "len" and len(pos) == 1 and isinstance(pos[0], Seq):
                    yield st, Const(len(st.heap.get(pos[0].uid, [])))
                    return
                if last in PURE_BUILTINS or last in ("dict",):
                    yield st, Unknown(prov=prov, why=last, kids=tuple(pos), pykind={"str": "str", "repr": "str", "int": "int", "len": "int", "bool": "bool", "dict": "dict"}.get(last, "unknown"))
                    return
                if last in ("setattr",) and pos and isinstance(pos[0], ObjRef) and pos[0].what in ("interpreter", "opcode"):
                    attr = pos[1].value if len(pos) > 1 and isinstance(pos[1], Const) else "?"
                    (st.interp_writes if pos[0].what == "interpreter" else st.self_writes).append((str(attr), line))
                    yield st, Const(None)
                    return
                if last in ("eval", "exec", "compile", "__import__", "open", "input", "breakpoint"):
                    st.notes.append(f"forbidden-builtin:{last}@{line}")
                    yield st, Unknown(prov=prov, why=last)
                    return
            # any other resolvable or external pure function
            yield st, Unknown(prov=prov, why=f"call:{last}", kids=tuple(allv))
            return
        if name.startswith("stack.") or name.startswith("memory.") or name.startswith("module_body."):
            raise Unrecognised(f"line {line}: indirect use of `{name}`")
        yield st, Unknown(prov=prov | fv.roots(), why="call", kids=tuple(allv))

    def _method_on_value(self, e: ast.Call, rv: Val, meth: str, pos, kws, st: State, frame):
        line = e.lineno
        prov = rv.roots().union(*[v.roots() for v in pos]) if pos else rv.roots()
        if isinstance(rv, Seq):
            items = st.heap.setdefault(rv.uid, [])
            if meth == "append" and len(pos) == 1:
                items.append(pos[0])
                yield st, Const(None)
                return
            if meth == "insert" and len(pos) == 2 and isinstance(pos[0], Const) and isinstance(pos[0].value, int):
                items.insert(pos[0].value, pos[1])
                yield st, Const(None)
                return
            if meth == "extend" and len(pos) == 1:
                add = st.heap.get(pos[0].uid) if isinstance(pos[0], Seq) else None
                if add is not None:
                    items.extend(add)
                else:
                    items.append(Unknown(prov=pos[0].roots(), why="extend", kids=(pos[0],)))
                yield st, Const(None)
                return
            if meth == "pop":
                idx = pos[0].value if pos and isinstance(pos[0], Const) else -1
                if items and isinstance(idx, int) and -len(items) <= idx < len(items):
                    yield st, items.pop(idx)
                    return
                yield st, Unknown(prov=prov, why="pop")
                return
            if meth in ("copy", "index", "count", "__len__"):
                if meth == "copy":
                    s = Seq(rv.pykind)
                    st.heap[s.uid] = list(items)
                    yield st, s
                else:
                    yield st, Unknown(prov=prov, why=meth)
                return
        if isinstance(rv, SliceV) and rv.pykind in ("list",):
            if meth == "pop" and pos and isinstance(pos[0], Const) and pos[0].value == 0 and rv.order == "fwd":
                # first element of the slice (the item right above the mark); the name now holds the tail
                first = SliceV("fwd", "first", "node")
                for k, v in list(st.env.items()):
                    if v is rv:
                        st.env[k] = rv.derive(part="tail")
                yield st, first
                return
            if meth in ("append", "extend", "insert") :
                for k, v in list(st.env.items()):
                    if v is rv:
                        st.env[k] = Unknown(prov=prov, pykind="list", why="slice+extra", kids=tuple([rv] + pos))
                yield st, Const(None)
                return
            if meth in ("copy",):
                yield st, rv.derive()
                return
            if meth in ("pop", "remove", "clear", "sort", "reverse"):
                raise Unrecognised(f"line {line}: `{meth}` on the marked slice is not modelled")
        # mutation through an attribute path of a node value: list_obj.elts.append(value)
        root, path = self._root_of(rv)
        if meth in LIST_MUTATORS and isinstance(root, (Item, Fresh, Unknown, SliceV)) and path:
            st.mutations.append(Mutation(root, path, meth, pos[0] if len(pos) == 1 else (Unknown(prov=prov, why="args", kids=tuple(pos)) if pos else None), line))
            yield st, Const(None)
            return
        if meth in LIST_MUTATORS and isinstance(root, (Item,)) and not path:
            st.mutations.append(Mutation(root, "", meth, pos[0] if pos else None, line))
            yield st, Unknown(prov=prov, why=meth)
            return
        kind = "unknown"
        if meth in ("split", "rsplit", "splitlines"):
            kind = "list"
        elif meth in ("strip", "encode", "decode", "format", "join", "lower", "upper", "replace"):
            kind = "str"
        yield st, Unknown(prov=prov, why=f".{meth}()", pykind=kind, kids=tuple([rv] + pos))
