"""Abstract values and per-path state for the opcode-handler interpreter (E5)."""

from __future__ import annotations

import itertools
from dataclasses import dataclass, field
from typing import Any, Dict, FrozenSet, List, Optional, Tuple

_uid = itertools.count(1)


class Val:
    """Immutable abstract value.  `pykind` is the Python-level kind the E6 field typing needs:
    node | list | tuple | iterator | str | int | bool | none | bytes | mark | dict | set | unknown."""

    pykind = "unknown"

    def __init__(self):
        self.uid = next(_uid)

    def roots(self) -> FrozenSet[str]:
        """Provenance atoms: 'T<k>' (k-th pop before a mark was consumed), 'B<k>' (k-th pop below
        the mark), 'slice', 'arg', 'memo', 'mark'."""
        return frozenset()

    def children(self) -> List["Val"]:
        return []

    def __hash__(self):
        return self.uid

    def __eq__(self, other):
        return self is other

    def short(self) -> str:
        return type(self).__name__


class Item(Val):
    pykind = "node"

    def __init__(self, label: str):
        super().__init__()
        self.label = label  # T0, T1, ... / B0, B1, ...

    def roots(self):
        return frozenset([self.label])

    def short(self):
        return f"SAME({self.label})"


class MarkV(Val):
    pykind = "mark"

    def short(self):
        return "MARK"


class SliceV(Val):
    """A sequence derived from the items above the mark."""

    def __init__(self, order: str, part: str, pykind: str = "list"):
        super().__init__()
        self.order = order  # fwd | rev | ?
        self.part = part  # all | some | tail | elem
        self.pykind = pykind

    def roots(self):
        return frozenset(["slice"])

    def short(self):
        return f"SLICE[{self.order},{self.part},{self.pykind}]"

    def derive(self, **kw) -> "SliceV":
        d = dict(order=self.order, part=self.part, pykind=self.pykind)
        d.update(kw)
        return SliceV(**d)


class Const(Val):
    def __init__(self, value: Any):
        super().__init__()
        self.value = value
        self.pykind = (
            "none"
            if value is None
            else "bool"
            if isinstance(value, bool)
            else "int"
            if isinstance(value, int)
            else "str"
            if isinstance(value, str)
            else "bytes"
            if isinstance(value, bytes)
            else "tuple"
            if isinstance(value, tuple)
            else "unknown"
        )

    def short(self):
        return f"CONST({self.value!r})"


class Seq(Val):
    """A list/tuple display or a locally built list; contents live in State.heap[uid]."""

    def __init__(self, pykind: str):
        super().__init__()
        self.pykind = pykind

    def short(self):
        return f"SEQ[{self.pykind}]"


class Fresh(Val):
    pykind = "node"

    def __init__(self, cls: str, fields: Dict[str, Val], line: int, extra_pos: int = 0):
        super().__init__()
        self.cls = cls
        self.fields = fields
        self.line = line

    def roots(self):
        out = frozenset()
        for v in self.fields.values():
            out |= v.roots()
        return out

    def children(self):
        return list(self.fields.values())

    def short(self):
        return f"FRESH({self.cls}@{self.line})"


class Unknown(Val):
    def __init__(self, prov: FrozenSet[str] = frozenset(), pykind: str = "unknown", why: str = "", kids: Tuple[Val, ...] = ()):
        super().__init__()
        self._prov = frozenset(prov)
        self.pykind = pykind
        self.why = why
        self.kids = tuple(kids)

    def roots(self):
        out = self._prov
        for k in self.kids:
            out |= k.roots()
        return out

    def children(self):
        return list(self.kids)

    def short(self):
        return f"?{self.why}" + (f"<{','.join(sorted(self.roots()))}>" if self.roots() else "")


class AttrOf(Val):
    """`<base>.<attr>` of an abstract value (e.g. `args.elts`, `module.value`)."""

    def __init__(self, base: Val, attr: str, pykind: str = "unknown"):
        super().__init__()
        self.base = base
        self.attr = attr
        self.pykind = pykind

    def roots(self):
        return self.base.roots()

    def children(self):
        return [self.base]

    def short(self):
        return f"{self.base.short()}.{self.attr}"


class ObjRef(Val):
    """`self` (the opcode) or `interpreter` or a module/class reference."""

    def __init__(self, what: str, cls: Optional[str] = None):
        super().__init__()
        self.what = what  # 'opcode' | 'interpreter' | 'stack' | 'memory' | 'module_body' | 'ref:<qual>'
        self.cls = cls

    def roots(self):
        return frozenset(["arg"]) if self.what == "opcode" else frozenset()

    def short(self):
        return self.what


class StackLen(Val):
    pykind = "int"

    def __init__(self, delta: int = 0):
        super().__init__()
        self.delta = delta


class Cond(Val):
    pykind = "bool"

    def __init__(self, text: str, kind: str = "", subject: Optional[Val] = None, arg: str = "", negated: bool = False, kids: Tuple[Val, ...] = (), node=None):
        super().__init__()
        self.node = node
        self.text = text
        self.kind = kind  # isinstance | stack-nonempty | other
        self.subject = subject
        self.arg = arg
        self.negated = negated
        self.kids = kids

    def roots(self):
        out = frozenset()
        for k in self.kids:
            out |= k.roots()
        if self.subject is not None:
            out |= self.subject.roots()
        return out

    def short(self):
        return f"COND({self.text})"


class FuncRef(Val):
    def __init__(self, func, bound_self: Optional[Val] = None, extra: Optional[dict] = None):
        super().__init__()
        self.func = func
        self.bound_self = bound_self
        self.extra = extra or {}


@dataclass
class Mutation:
    target: Val  # the value whose field/contents is mutated (root object, e.g. Item or Fresh)
    field: str  # attribute path, e.g. 'elts'
    how: str  # append | extend | assign | ...
    arg: Optional[Val]
    line: int


@dataclass
class State:
    env: Dict[str, Val] = field(default_factory=dict)
    heap: Dict[int, List[Val]] = field(default_factory=dict)
    # stack model
    local_stack: List[Val] = field(default_factory=list)  # values pushed by this handler (still there)
    pops_top: int = 0  # base items popped before mark consumption
    pops_below: int = 0  # base items popped after mark consumption
    mark_consumed: int = 0
    base_items: Dict[str, Item] = field(default_factory=dict)
    peeked: List[str] = field(default_factory=list)
    popped_vals: List[Val] = field(default_factory=list)
    pushes: List[Tuple[Val, int]] = field(default_factory=list)  # every push (value, line)
    assumed_empty: bool = False
    # effects
    sinks: List[Tuple[Val, int]] = field(default_factory=list)
    memo_writes: List[Tuple[Val, Val, int]] = field(default_factory=list)
    memo_reads: List[Tuple[Val, int]] = field(default_factory=list)
    memo_other: List[Tuple[str, int]] = field(default_factory=list)
    mutations: List[Mutation] = field(default_factory=list)
    interp_writes: List[Tuple[str, int]] = field(default_factory=list)
    self_writes: List[Tuple[str, int]] = field(default_factory=list)
    conds: List[str] = field(default_factory=list)
    cond_vals: List[Tuple[Cond, bool]] = field(default_factory=list)
    notes: List[str] = field(default_factory=list)
    raised: Optional[tuple] = None
    body_other: List[Tuple[str, int]] = field(default_factory=list)

    def clone(self) -> "State":
        s = State()
        s.env = dict(self.env)
        s.heap = {k: list(v) for k, v in self.heap.items()}
        s.local_stack = list(self.local_stack)
        s.pops_top, s.pops_below, s.mark_consumed = self.pops_top, self.pops_below, self.mark_consumed
        s.base_items = dict(self.base_items)
        s.peeked = list(self.peeked)
        s.popped_vals = list(self.popped_vals)
        s.pushes = list(self.pushes)
        s.assumed_empty = self.assumed_empty
        s.sinks = list(self.sinks)
        s.memo_writes = list(self.memo_writes)
        s.memo_reads = list(self.memo_reads)
        s.memo_other = list(self.memo_other)
        s.mutations = list(self.mutations)
        s.interp_writes = list(self.interp_writes)
        s.self_writes = list(self.self_writes)
        s.conds = list(self.conds)
        s.cond_vals = list(self.cond_vals)
        s.notes = list(self.notes)
        s.raised = self.raised
        s.body_other = list(self.body_other)
        return s

    # ------------------------------------------------------------------ stack primitives
    def _next_label(self) -> str:
        return f"B{self.pops_below}" if self.mark_consumed else f"T{self.pops_top}"

    def _base(self, label: str) -> Item:
        if label not in self.base_items:
            self.base_items[label] = Item(label)
        return self.base_items[label]

    def pop(self) -> Val:
        if self.local_stack:
            v = self.local_stack.pop()
            self.popped_vals.append(v)
            return v
        label = self._next_label()
        it = self._base(label)
        if self.mark_consumed:
            self.pops_below += 1
        else:
            self.pops_top += 1
        self.popped_vals.append(it)
        return it

    def peek(self) -> Val:
        if self.local_stack:
            return self.local_stack[-1]
        label = self._next_label()
        if label not in self.peeked:
            self.peeked.append(label)
        return self._base(label)

    def push(self, v: Val, line: int):
        self.local_stack.append(v)
        self.pushes.append((v, line))

    def consume_mark(self):
        if self.local_stack:
            # popping to a mark through values this handler pushed itself: not an idiom we model
            raise ValueError("pop-to-mark over locally pushed values")
        self.mark_consumed += 1
