"""VM worlds (C03, C05, C09): the decompiler itself - Pickled.load, Interpreter.step and every opcode handler it dispatches to,
Interpreter.to_ast - is *interpreted* (sa/objeval) over a corpus of real pickle byte strings, and what it does is compared,
opcode by opcode, with a reference unpickling machine derived from `pickletools`' declared stack effects (the table
`pickletools.dis` itself checks streams against), and, at the end, the value the decompiled program denotes with the value
CPython's own unpickler builds from the same bytes.

Nothing of fickling is imported or run by Python.  The syntax trees the interpreted handlers build are real `ast` nodes
(constructed by the interpreter on fickling's behalf: data); the decompiled program is evaluated by the small evaluator
below, which knows literals, names, attribute/method calls on builtin containers, item assignment and calls of the few
standard-library constructors the corpus uses - it does not `exec` anything.
"""

from __future__ import annotations

import ast
import io
import pickle
import pickletools
from typing import Any, Dict, List, Optional, Tuple

from .minieval import PyRaise, Unsupported
from .model import Repo
from .objeval import Instance
from .report import AnalysisError

CALL_OPS = {"REDUCE", "NEWOBJ", "NEWOBJ_EX", "OBJ", "INST", "BUILD"}
GLOBAL_OPS = {"GLOBAL", "STACK_GLOBAL", "INST"}
BUILTIN_ALIASES = ("builtins", "__builtin__", "__builtins__")


# ------------------------------------------------------------------------------------------------------------------------
# reference machine (pickletools' stack-effect table, as pickletools.dis applies it)
# ------------------------------------------------------------------------------------------------------------------------
def reference_trace(data: bytes):
    """[(opcode name, depth, mark positions, sorted memo keys)] after each opcode, n call-making opcodes, resolved globals."""
    mark = pickletools.markobject
    stack: list = []
    memo: Dict[int, Any] = {}
    out = []
    calls = 0
    globals_: List[Tuple[str, str]] = []
    strings: list = []  # constant strings on the stack, for STACK_GLOBAL
    for info, arg, _pos in pickletools.genops(io.BytesIO(data)):
        before, after = list(info.stack_before), list(info.stack_after)
        numtopop = len(before)
        if info.name in CALL_OPS:
            calls += 1
        if info.name in ("GLOBAL", "INST") and arg.count(" ") == 1:
            m, n = arg.split(" ", 1)  # (names that contain spaces themselves cannot be told apart in genops' rendering)
            globals_.append((m, n))
        if mark in before or (info.name == "POP" and stack and stack[-1] is mark):
            while stack and stack[-1] is not mark:
                stack.pop()
            if not stack:
                raise ValueError("no mark")
            stack.pop()
            try:
                numtopop = before.index(mark)
            except ValueError:
                numtopop = 0
        if info.name in ("PUT", "BINPUT", "LONG_BINPUT", "MEMOIZE"):
            memo[len(memo) if info.name == "MEMOIZE" else arg] = stack[-1]
        elif info.name in ("GET", "BINGET", "LONG_BINGET"):
            after = [memo[arg]]
        if numtopop:
            del stack[-numtopop:]
        stack.extend(after)
        out.append((info.name, len(stack), [i for i, x in enumerate(stack) if x is mark], sorted(memo)))
        if info.name == "STOP":
            break
    return out, calls, globals_


# ------------------------------------------------------------------------------------------------------------------------
# the interpreted machine
# ------------------------------------------------------------------------------------------------------------------------
NODE_AS_CONSTANT: set = set()


def interpreted_trace(repo: Repo, oe, data: bytes):
    """Steps fickling's Interpreter (interpreted) over `data`.  Returns (trace, module or None, error or None) with the trace in
    the reference's format."""
    pk = repo.cls("fickling.fickle.Pickled")
    it = repo.cls("fickling.fickle.Interpreter")
    mk = repo.cls("fickling.fickle.MarkObject")
    P = oe.ref(pk).sa_attr("load")(data)
    I = oe.ref(it)(P)
    trace = []
    prev_top = None
    while True:
        try:
            op = I.sa_attr("step")()
        except PyRaise as pe:
            if pe.name == "StopIteration":
                break
            return trace, None, pe.name
        if not isinstance(op, Instance):
            raise Unsupported("Interpreter.step() did not return the opcode it ran")
        st = I.sa_attr("stack")
        items = st.sa_attr("_stack") if isinstance(st, Instance) else st
        if not isinstance(items, list):
            raise Unsupported("the interpreter's stack is not list-backed")
        marks = [i for i, x in enumerate(items) if isinstance(x, Instance) and mk in repo.mro_classes(x.c)]
        mem = I.sa_attr("memory")
        name = oe.class_getattr(op.c, "name", op)
        if items and items[-1] is not prev_top and isinstance(items[-1], ast.Constant) and isinstance(items[-1].value, ast.AST):
            NODE_AS_CONSTANT.add(name)  # the opcode pushed a Constant whose 'value' is itself a syntax-tree node
        prev_top = items[-1] if items else None
        trace.append((name, len(items), marks, sorted(mem) if isinstance(mem, dict) else None))
    try:
        mod = I.sa_attr("to_ast")()
    except PyRaise as pe:
        return trace, None, pe.name
    return trace, mod, None


# ------------------------------------------------------------------------------------------------------------------------
# evaluator for decompiled programs
# ------------------------------------------------------------------------------------------------------------------------
class ProgramError(Exception):
    pass


# Both sides of the comparison run "in an environment where imported names are inert stand-ins" (the property's words): every
# global, whatever its module, is a stand-in class whose instances record how they were made and what was applied to them.
_STANDINS: Dict[Tuple[str, str], type] = {}
CALL_LOG: List[tuple] = []  # every stand-in call, in order (the effects a pickle has, when everything it names is inert)


class _StandIn:
    _key = ("?", "?")

    def __new__(cls, *a, **k):
        o = object.__new__(cls)
        o._log = [("call", a, tuple(sorted(k.items(), key=lambda kv: kv[0])))]
        CALL_LOG.append((cls._key, a, tuple(sorted(k.items(), key=lambda kv: kv[0]))))
        return o

    def __init__(self, *a, **k):
        pass

    def __setstate__(self, state):
        self._log.append(("setstate", state))

    def append(self, x):
        self._log.append(("append", x))

    def extend(self, xs):
        for x in xs:
            self._log.append(("append", x))

    def __setitem__(self, k, v):
        self._log.append(("setitem", k, v))

    def update(self, d):
        for k, v in (d.items() if hasattr(d, "items") else d):
            self._log.append(("setitem", k, v))

    def add(self, x):
        self._log.append(("add", x))

    def __call__(self, *a, **k):
        return standin(self._key[0], self._key[1] + "(...)")(*a, **k)

    def __eq__(self, other):
        return type(self) is type(other) and self._log == other._log

    def __hash__(self):
        return hash(self._key)

    def __repr__(self):
        return f"<{self._key[0]}.{self._key[1]} {self._log!r}>"[:120]


def standin(module: str, name: str) -> type:
    if module in BUILTIN_ALIASES:
        module = "builtins"
    key = (module, name)
    if key not in _STANDINS:
        _STANDINS[key] = type("StandIn_" + name.replace(".", "_").replace("(", "").replace(")", ""), (_StandIn,), {"_key": key})
    return _STANDINS[key]


class _StandInUnpickler(pickle.Unpickler):
    """CPython's own unpickler with every global replaced by its stand-in (find_class is the documented hook)."""

    def find_class(self, module, name):
        return standin(module, name)

    def persistent_load(self, pid):
        return standin("UNPICKLER", "persistent_load")(pid)


class _StandInUnpicklerPy(pickle._Unpickler):
    """The pure-Python unpickler (Lib/pickle.py), same stand-ins."""

    def find_class(self, module, name):
        return standin(module, name)

    def persistent_load(self, pid):
        return standin("UNPICKLER", "persistent_load")(pid)


def reference_value(data: bytes):
    return _StandInUnpickler(io.BytesIO(data)).load()


def _import(module: str, name: str):
    return standin(module, name)


def _build(obj, state):
    """pickle's BUILD, which is what `obj.__setstate__(state)` in a decompiled program stands for."""
    setstate = getattr(obj, "__setstate__", None)
    if setstate is not None and not (type(obj).__setstate__ is getattr(object, "__setstate__", None)):
        setstate(state)
        return
    slotstate = None
    if isinstance(state, tuple) and len(state) == 2:
        state, slotstate = state
    if state:
        obj.__dict__.update(state)
    if slotstate:
        for k, v in slotstate.items():
            setattr(obj, k, v)


def eval_program(mod: ast.Module):
    env = eval_program_env(mod)
    if "result" not in env:
        raise ProgramError("the decompiled program never assigns `result`")
    return env["result"]


def eval_program_env(mod: ast.Module) -> Dict[str, Any]:
    """Run a decompiled program on inert stand-ins; returns its final name bindings."""
    import builtins

    env: Dict[str, Any] = {}

    def ev(e):
        if isinstance(e, ast.Constant):
            return e.value
        if isinstance(e, ast.Name):
            if e.id in env:
                return env[e.id]
            if e.id == "UNPICKLER":
                # the decompiler's name for the unpickler object: only its persistent_load is ever used
                return type("UNPICKLER", (), {"persistent_load": standin("UNPICKLER", "persistent_load")})
            if hasattr(builtins, e.id) or e.id in ("xrange", "unicode", "long", "basestring", "unichr", "reduce", "intern", "raw_input", "execfile", "file", "cmp", "apply", "buffer", "coerce"):
                return standin("builtins", e.id)  # a bare name is a builtin the VM resolved without an import being emitted
            raise NameError(f"name '{e.id}' is not defined in the decompiled program")
        if isinstance(e, (ast.List, ast.Tuple, ast.Set)):
            vals = []
            for x in e.elts:
                if isinstance(x, ast.Starred):
                    vals.extend(ev(x.value))
                else:
                    vals.append(ev(x))
            return vals if isinstance(e, ast.List) else tuple(vals) if isinstance(e, ast.Tuple) else set(vals)
        if isinstance(e, ast.Dict):
            out = {}
            for k, v in zip(e.keys, e.values):
                if k is None:
                    out.update(ev(v))
                else:
                    out[ev(k)] = ev(v)
            return out
        if isinstance(e, ast.Attribute):
            return getattr(ev(e.value), e.attr)
        if isinstance(e, ast.Subscript):
            return ev(e.value)[ev(e.slice)]
        if isinstance(e, ast.Call):
            if isinstance(e.func, ast.Attribute) and e.func.attr == "__setstate__" and len(e.args) == 1:
                _build(ev(e.func.value), ev(e.args[0]))
                return None
            fn = ev(e.func)
            args = []
            for a in e.args:
                if isinstance(a, ast.Starred):
                    args.extend(ev(a.value))
                else:
                    args.append(ev(a))
            kw = {}
            for k in e.keywords:
                if k.arg is None:
                    kw.update(ev(k.value))
                else:
                    kw[k.arg] = ev(k.value)
            return fn(*args, **kw)
        raise ProgramError(f"expression {type(e).__name__} in the decompiled program")

    for st in mod.body:
        if isinstance(st, ast.ImportFrom):
            for a in st.names:
                env[a.asname or a.name.split(".")[0]] = _import(st.module, a.name)
        elif isinstance(st, ast.Import):
            raise ProgramError("plain import in the decompiled program")
        elif isinstance(st, ast.Assign) and len(st.targets) == 1:
            t = st.targets[0]
            v = ev(st.value)
            if isinstance(t, ast.Name):
                env[t.id] = v
            elif isinstance(t, ast.Subscript):
                ev(t.value)[ev(t.slice)] = v
            elif isinstance(t, ast.Attribute):
                setattr(ev(t.value), t.attr, v)
            else:
                raise ProgramError("assignment target")
        elif isinstance(st, ast.Expr):
            ev(st.value)
        else:
            raise ProgramError(f"statement {type(st).__name__} in the decompiled program")
    return env


def _nan_aware_equal(a, b, depth: int) -> bool:
    """`==` except that a NaN equals a NaN (two pickled NaNs are the same value although IEEE says nan != nan)."""
    if depth > 50 or type(a) is not type(b):
        return False
    if isinstance(a, float):
        return a == b or (a != a and b != b)
    if isinstance(a, (list, tuple)):
        return len(a) == len(b) and all(_nan_aware_equal(x, y, depth + 1) for x, y in zip(a, b))
    if isinstance(a, dict):
        return len(a) == len(b) and all(_nan_aware_equal(k1, k2, depth + 1) and _nan_aware_equal(v1, v2, depth + 1) for (k1, v1), (k2, v2) in zip(a.items(), b.items()))
    return a == b


def same_value(a, b) -> bool:
    """The property's comparison for results: structurally equal (`==`, same type)."""
    try:
        if type(a) is not type(b):
            return False
        if a == b:
            return True
        return _nan_aware_equal(a, b, 0)
    except RecursionError:
        return repr(a) == repr(b)
    except Exception:
        return False


# ------------------------------------------------------------------------------------------------------------------------
# one world
# ------------------------------------------------------------------------------------------------------------------------
def run_world(repo: Repo, oe, label: str, data: bytes, value_check: bool) -> List[Tuple[str, str]]:
    """Deviations [(key, message)] of the interpreted decompiler from the reference on one input."""
    devs: List[Tuple[str, str]] = []
    try:
        ref, n_calls, globals_ = reference_trace(data)
    except Exception:
        return devs  # the reference machine itself refuses the stream: outside the property's domain
    NODE_AS_CONSTANT.clear()
    try:
        trace, mod, err = interpreted_trace(repo, oe, data)
    except PyRaise as pe:
        if pe.name == "NotImplementedError":
            return devs
        return [(f"parse-raises:{pe.name}", f"Pickled.load raises {pe.name} on {label}")]
    # ---- C09: step by step
    for i, (r, t) in enumerate(zip(ref, trace)):
        if r[0] != t[0]:
            devs.append((f"opcode-order:{r[0]}", f"{label}: step {i} runs {t[0]} where the stream has {r[0]}"))
            break
        if r[1] != t[1]:
            devs.append((f"stack-depth:{r[0]}", f"{label}: after opcode #{i} {r[0]} the interpreter's stack holds {t[1]} item(s), the unpickling machine's {r[1]}"))
            break
        if r[2] != t[2]:
            devs.append((f"mark-positions:{r[0]}", f"{label}: after opcode #{i} {r[0]} the marks are at {t[2]}, in the unpickling machine at {r[2]}"))
            break
        if t[3] is not None and r[3] != t[3]:
            devs.append((f"memo-keys:{r[0]}", f"{label}: after opcode #{i} {r[0]} the memo keys are {t[3][:8]}, in the unpickling machine {r[3][:8]}"))
            break
    if err is not None:
        if err == "NotImplementedError":
            return devs  # an opcode fickling refuses as a whole (C03.refuse)
        devs.append((f"decompile-raises:{err}", f"{label}: decompilation raises {err} on a stream the unpickling machine runs to STOP"))
        return devs
    if not devs and len(trace) != len(ref):
        devs.append(("stops-elsewhere", f"{label}: the interpreter ran {len(trace)} opcode(s), the unpickling machine {len(ref)} up to STOP"))
    if mod is None or not isinstance(mod, ast.Module):
        devs.append(("no-module", f"{label}: to_ast() did not return a Module"))
        return devs
    nodes, cyclic = _walk(mod)
    # ---- C03: nothing the machine resolves or calls is missing from the program
    n_emitted = sum(1 for n in nodes if isinstance(n, ast.Call))
    if n_emitted < n_calls:
        devs.append(("call-not-in-program", f"{label}: the unpickling machine makes {n_calls} call(s) (REDUCE/NEWOBJ/OBJ/INST/BUILD), the decompiled program contains {n_emitted}"))
    imported = {(st.module, a.name) for st in mod.body if isinstance(st, ast.ImportFrom) for a in st.names}
    for m, n in globals_:
        if m not in BUILTIN_ALIASES and (m, n) not in imported:
            devs.append((f"global-not-imported", f"{label}: the unpickling machine resolves {m}.{n}; the decompiled program has no `from {m} import {n}`"))
            break
    # ---- C05: the program denotes the value the real unpickler builds (a self-referential value has no finite program text;
    # fickling represents it by a cyclic tree, which is outside what a program evaluator can be asked)
    if value_check and not cyclic:
        try:
            expected = reference_value(data)
        except Exception:
            return devs
        try:
            got = eval_program(mod)
        except ProgramError as e:
            raise AnalysisError(f"decompiled program of {label} is outside the program evaluator's subset: {e}")
        except RecursionError:
            return devs
        except Exception as e:
            group = label[len("pickle.dumps("):].split(",")[0] if label.startswith("pickle.dumps(") else "assembled-program" if label.startswith("asm:") else label
            devs.append((f"program-fails:{type(e).__name__}:{group}", f"{label}: evaluating the decompiled program raises {type(e).__name__}: {str(e)[:80]} (the real unpickler builds {repr(expected)[:60]})"))
            return devs
        if not same_value(expected, got):
            group = label[len("pickle.dumps("):].split(",")[0] if label.startswith("pickle.dumps(") else "assembled-program" if label.startswith("asm:") else label
            if NODE_AS_CONSTANT:
                group = "node-as-constant:" + "+".join(sorted(NODE_AS_CONSTANT))
            devs.append((f"value-differs:{group}", f"{label}: the decompiled program denotes {repr(got)[:70]}, the real unpickler builds {repr(expected)[:70]}"))
        elif not NODE_AS_CONSTANT:
            # ... and so does its *text* (what the CLI prints and a user would run): unparse, parse again, evaluate
            group = label[len("pickle.dumps("):].split(",")[0] if label.startswith("pickle.dumps(") else "assembled-program" if label.startswith("asm:") else label
            try:
                text = ast.unparse(mod)
            except Exception:
                return devs  # (a tree the unparser refuses is reported by C19 / C13, which print it)
            try:
                mod2 = ast.parse(text)
            except SyntaxError as e:
                devs.append((f"program-text-not-python:{group}", f"{label}: the decompiled program's text does not parse: {e.msg} ({text[:80]!r})"))
                return devs
            except (ValueError, RecursionError, MemoryError):
                return devs
            try:
                CALL_LOG.clear()
                got2 = eval_program(mod2)
            except (ProgramError, RecursionError):
                return devs
            except Exception as e:
                devs.append((f"program-text-fails:{type(e).__name__}:{group}", f"{label}: the decompiled program evaluates as a tree but its text raises {type(e).__name__}: {str(e)[:80]}"))
                return devs
            if not same_value(expected, got2):
                devs.append((f"program-text-differs:{group}", f"{label}: run from its text the decompiled program denotes {repr(got2)[:70]}, the real unpickler builds {repr(expected)[:70]}"))
    return devs


def _walk(root: ast.AST):
    """All nodes reachable from root (each once) and whether a node contains itself."""
    seen: Dict[int, ast.AST] = {}
    cyclic = False
    onpath = set()

    def rec(n, depth=0):
        nonlocal cyclic
        if id(n) in onpath:
            cyclic = True
            return
        if id(n) in seen:
            return
        seen[id(n)] = n
        onpath.add(id(n))
        for _f, v in ast.iter_fields(n):
            if isinstance(v, ast.AST):
                rec(v)
            elif isinstance(v, (list, tuple)):
                for x in v:
                    if isinstance(x, ast.AST):
                        rec(x)
        onpath.discard(id(n))

    import sys

    old = sys.getrecursionlimit()
    sys.setrecursionlimit(max(old, 20000))
    try:
        rec(root)
    finally:
        sys.setrecursionlimit(old)
    return list(seen.values()), cyclic


# ------------------------------------------------------------------------------------------------------------------------
# assembled programs: bounded-exhaustive enumeration over a typed opcode alphabet, filtered by CPython's own unpickler
# ------------------------------------------------------------------------------------------------------------------------
TOKENS = dict([
    ("K1", b"K\x01"), ("K2", b"K\x02"), ("NONE", b"N"), ("U", b"\x8c\x01a"),
    ("EMPTY_LIST", b"]"), ("EMPTY_DICT", b"}"), ("EMPTY_TUPLE", b")"), ("MARK", b"("),
    ("TUPLE", b"t"), ("LIST", b"l"), ("DICT", b"d"), ("TUPLE1", b"\x85"), ("TUPLE2", b"\x86"),
    ("APPEND", b"a"), ("APPENDS", b"e"), ("SETITEM", b"s"), ("SETITEMS", b"u"),
    ("POP", b"0"), ("POP_MARK", b"1"), ("DUP", b"2"),
    ("BINPUT0", b"q\x00"), ("BINPUT1", b"q\x01"), ("BINPUT5", b"q\x05"), ("BINGET0", b"h\x00"), ("BINGET1", b"h\x01"), ("BINGET5", b"h\x05"), ("MEMOIZE", b"\x94"),
    ("G_LEN", b"cbuiltins\nlen\n"), ("G_OD", b"ccollections\nOrderedDict\n"), ("REDUCE", b"R"), ("NEWOBJ", b"\x81"), ("OBJ", b"o"), ("BUILD", b"b"),
])
MEMO_ALPHABET = ["K1", "EMPTY_LIST", "BINPUT0", "BINPUT1", "BINGET0", "BINGET1", "MEMOIZE", "POP", "TUPLE2", "APPEND"]
CALL_ALPHABET = ["G_LEN", "G_OD", "EMPTY_TUPLE", "U", "TUPLE1", "REDUCE", "NEWOBJ", "OBJ", "MARK", "POP", "DUP", "BUILD", "EMPTY_DICT"]


def _valid_programs(alphabet, length: int):
    """Every sequence of `length` tokens (framed by PROTO 4 and STOP) that CPython's own unpickler runs to completion: the only
    globals in the alphabet are builtins.len and collections.OrderedDict, so this unpickling is inert.  Sequences in which
    APPENDS / SETITEMS get an empty slice are left out: the C unpickler treats them as no-ops whatever lies below, which no
    typed assembler (and no pickler) produces."""
    import itertools

    for seq in itertools.product(alphabet, repeat=length):
        data = b"\x80\x04" + b"".join(TOKENS[n] for n in seq) + b"."
        if b"(e" in data or b"(u" in data:
            continue
        try:
            pickle.loads(data)
        except Exception:
            continue
        yield " ".join(seq), data


def assembled(tier: str):
    out = []
    for L in (1, 2, 3):
        out += list(_valid_programs(list(TOKENS), L))
    out += list(_valid_programs(MEMO_ALPHABET, 4))
    m5 = list(_valid_programs(MEMO_ALPHABET, 5))
    c4 = list(_valid_programs(CALL_ALPHABET, 4))
    if tier == "thorough":
        out += m5 + c4
        out += list(_valid_programs(list(TOKENS), 4))
        out += list(_valid_programs(MEMO_ALPHABET, 6))[::4]
        out += list(_valid_programs(CALL_ALPHABET, 5))[::4]
    else:
        out += m5[::3] + c4[::4]
    seen = set()
    uniq = []
    for label, data in out:
        if data not in seen:
            seen.add(data)
            uniq.append((label, data))
    return uniq


_VREPO = None


def _vchunk(items):
    from .props.c06 import _fresh_objeval

    out = []
    shared = None
    for label, data, vc in items:
        try:
            if label.startswith("asm:"):
                # assembled programs are decompiled one after the other in one interpreter, like pickles in one process
                shared = shared or _fresh_objeval(_VREPO)
                oe = shared
                oe.steps = 0
            else:
                oe = _fresh_objeval(_VREPO)
            out.append(("ok", run_world(_VREPO, oe, label, data, vc)))
        except Unsupported as e:
            out.append(("unsupported", f"{label}: {e}"))
        except AnalysisError as e:
            out.append(("unsupported", f"{label}: {e}"))
    return out


def explore(repo: Repo, tier: str):
    import multiprocessing as mp
    import os
    from concurrent.futures import ProcessPoolExecutor
    from pathlib import Path

    from .cache import cached, digest
    from .props.c06 import _corpus

    global _VREPO
    _VREPO = repo
    corpus = _corpus(tier)
    items = [(label, data, label.startswith("pickle.dumps(") or label in VALUE_SAFE_HAND) for label, data in corpus]
    items += [("asm:" + label, data, True) for label, data in assembled(tier)]
    jobs = min(int(os.environ.get("SA_JOBS", "16")), os.cpu_count() or 1)
    chunks = [items[i::jobs] for i in range(jobs)]

    def compute():
        try:
            with ProcessPoolExecutor(max_workers=jobs, mp_context=mp.get_context("fork")) as ex:
                return list(ex.map(_vchunk, chunks))
        except (OSError, RuntimeError):
            return [_vchunk(c) for c in chunks]

    key = "vmworlds-" + digest(repo, ["fickling.fickle"], f"{tier}|{jobs}", [Path(__file__), Path(__file__).parent / "props" / "c06.py"])
    parts = cached(key, compute)
    found: Dict[str, Tuple[int, str]] = {}
    n = 0
    for outs in parts:
        for o in outs:
            n += 1
            if o[0] == "unsupported":
                raise AnalysisError(f"VM worlds: cannot interpret the decompiler over {o[1]}")
            for key_, msg in o[1]:
                c, m = found.get(key_, (0, msg))
                found[key_] = (c + 1, m)
    return found, n


VALUE_SAFE_HAND = {
    "INT 01 (protocol-0 True)", "INT 00 (protocol-0 False)", "INT 1", "INT with leading zeros", "INT negative", "LONG with L suffix", "LONG without suffix", "LONG negative",
    "LONG1 minimal", "LONG1 empty payload", "LONG1 non-minimal payload", "LONG4", "STRING double-quoted", "STRING single-quoted", "STRING with escape", "UNICODE with escape", "UNICODE raw utf-8",
    "SHORT_BINSTRING", "BINSTRING", "BINUNICODE8", "BINBYTES8", "BINFLOAT", "BININT2", "BININT negative", "text PUT/GET", "text PUT with spaces", "BINPUT/BINGET", "LONG_BINPUT/GET", "MEMOIZE",
    "POP / DUP / POP_MARK", "EMPTY_SET/ADDITEMS/FROZENSET", "APPEND/SETITEM", "TUPLE1/2/3", "DICT/LIST from marks", "NEWTRUE/NEWFALSE/NONE", "BYTEARRAY8", "OBJ", "NEWOBJ", "NEWOBJ_EX", "REDUCE+BUILD",
    "FRAME with a wrong length", "FRAME zero", "two PROTO opcodes", "PROTO not first",
    "torch-like state dict (BINPERSID storage, _rebuild_tensor_v2, OrderedDict + BUILD)",
    "MEMOIZE overwriting the slot an explicit BINPUT used", "callee fetched from a slot MEMOIZE overwrote (print -> os.system)", "sparse memo: a lone BINPUT 2", "INST without arguments",
    "OBJ with two arguments", "NEWOBJ_EX with keyword names that are a reserved word / not NFKC-normal / ordinary", "os.system by INST (protocol 0)",
    "OBJ inside an enclosing MARK (the arguments end at the innermost mark)", "INST inside an enclosing MARK", "empty batches: MARK SETITEMS, MARK APPENDS, MARK ADDITEMS",
    "EXT1 -> collections.OrderedDict", "EXT2 -> os.system, called", "EXT4 -> collections.OrderedDict",
    "header-less NEWTRUE at offset 0", "header-less NEWFALSE at offset 0", "header-less EMPTY_SET at offset 0", "header-less EMPTY_TUPLE at offset 0", "header-less EMPTY_LIST at offset 0", "header-less EMPTY_DICT at offset 0", "header-less NONE at offset 0",
}

C09_KEYS = ("stack-depth", "mark-positions", "memo-keys", "opcode-order", "stops-elsewhere", "parse-raises", "decompile-raises")
C05_KEYS = ("value-differs", "program-fails", "program-text", "decompile-raises", "no-module")
C03_KEYS = ("call-not-in-program", "global-not-imported")


def report(repo: Repo, rep, rule: str, tier: str, keys):
    found, n = explore(repo, tier)
    it = repo.cls("fickling.fickle.Interpreter")
    for key, (c, msg) in sorted(found.items()):
        if any(key.startswith(k) for k in keys):
            rep.bad(rule, it.qualname, key, f"{msg} [{c} input(s)]", it.module.relpath, it.node.lineno)
    rep.ok(rule, it.qualname, f"{n} byte strings (the C06 corpus, and every program CPython's unpickler accepts among all sequences of up to 3 tokens of a 33-token opcode alphabet and of 4-5 tokens of a memo-centred and a call-centred alphabet; thorough: up to 4 of the full alphabet, 6 and 5 of the focused ones) decompiled by the interpreted Interpreter and compared with the reference unpickling machine built from pickletools' stack-effect table (depth, mark positions and memo keys after every opcode; calls and resolved globals) and, where CPython's unpickler loads them, with the value it builds", "", nontrivial=True)


# ------------------------------------------------------------------------------------------------------------------------
# C19: whenever a pickle decompiles, the safety check returns a verdict and a JSON-serialisable report
# ------------------------------------------------------------------------------------------------------------------------
class _StdlibOracle:
    sa_callable = True

    def __call__(self, name, *a, **k):
        import sys

        return isinstance(name, str) and name.split(".")[0] in sys.stdlib_module_names


def safety_world(repo: Repo, oe, label: str, data: bytes) -> List[Tuple[str, str]]:
    import json

    A = "fickling.analysis"
    pk = repo.cls("fickling.fickle.Pickled")
    oe.externals["stdlib_list.in_stdlib"] = _StdlibOracle()
    try:
        P = oe.ref(pk).sa_attr("load")(data)
        mod = P.sa_attr("ast")
    except PyRaise:
        return []  # does not parse / does not decompile: outside the property
    cyclic = isinstance(mod, ast.AST) and _walk(mod)[1]
    ab = repo.cls(f"{A}.Analysis")
    subs = sorted((c for c in repo.classes.values() if c is not ab and repo.is_subclass(c, ab.qualname)), key=lambda c: (c.module.name != A, c.module.name, c.node.lineno))
    az = oe.instantiate(repo.cls(f"{A}.Analyzer"), [[oe.instantiate(c, [], {}) for c in subs]], {})
    cs = oe.module_global(repo.modules[A], "check_safety")
    try:
        r = cs(P, analyzer=az)
    except PyRaise as pe:
        return [(f"check-safety-raises:{pe.name}", f"{label}: the pickle decompiles, but check_safety raises {pe.name}")]
    except RecursionError:
        # the interpreted code recursed without bound - as the real code does on the same tree
        return [(f"check-safety-raises:RecursionError:{'self-referential-value' if cyclic else 'other'}", f"{label}: the pickle decompiles{' (to a syntax tree that contains itself: the value is self-referential)' if cyclic else ''}, but check_safety recurses without bound (RecursionError)")]
    devs = []
    try:
        sev = r.sa_attr("severity")
        if not (isinstance(sev, tuple) and sev and sev[0] == "enum-member"):
            devs.append(("verdict-not-a-severity", f"{label}: check_safety(...).severity is {sev!r}"))
        for f in r.sa_attr("results"):
            fs, fm = f.sa_attr("severity"), f.sa_attr("message")
            if not (isinstance(fs, tuple) and fs and fs[0] == "enum-member"):
                devs.append(("finding-without-severity", f"{label}: a finding carries {fs!r} as its severity"))
            if not isinstance(fm, str) or not fm:
                devs.append(("finding-without-message", f"{label}: a finding of {f.sa_attr('analysis_name')} carries {fm!r} as its message"))
        d = r.sa_attr("to_dict")()
    except PyRaise as pe:
        return devs + [(f"report-raises:{pe.name}", f"{label}: building the report of a verdict raises {pe.name}")]
    try:
        json.dumps(d)
    except (TypeError, ValueError) as ex:
        devs.append((f"report-not-json:{type(ex).__name__}", f"{label}: the report is not JSON-serialisable: {str(ex)[:80]}"))
    if not isinstance(d, dict) or "severity" not in d:
        devs.append(("report-shape", f"{label}: the report is {str(d)[:80]}"))
    return devs


def _schunk(items):
    from .props.c06 import _fresh_objeval

    out = []
    shared = None
    for label, data in items:
        try:
            shared = shared or _fresh_objeval(_VREPO)
            shared.steps = 0
            out.append(("ok", safety_world(_VREPO, shared, label, data)))
        except Unsupported as e:
            out.append(("unsupported", f"{label}: {e}"))
        except AnalysisError as e:
            out.append(("unsupported", f"{label}: {e}"))
    return out


def explore_safety(repo: Repo, tier: str):
    import multiprocessing as mp
    import os
    from concurrent.futures import ProcessPoolExecutor
    from pathlib import Path

    from .cache import cached, digest
    from .props.c06 import _corpus

    global _VREPO
    _VREPO = repo
    items = list(_corpus(tier))
    for L in (1, 2, 3):
        items += [("asm:" + l, d) for l, d in _valid_programs(list(TOKENS), L)]
    c4 = [("asm:" + l, d) for l, d in _valid_programs(CALL_ALPHABET, 4)]
    items += c4 if tier == "thorough" else c4[::4]
    items += position_family(40 if tier == "thorough" else 25)
    jobs = min(int(os.environ.get("SA_JOBS", "16")), os.cpu_count() or 1)
    chunks = [items[i::jobs] for i in range(jobs)]

    def compute():
        try:
            with ProcessPoolExecutor(max_workers=jobs, mp_context=mp.get_context("fork")) as ex:
                return list(ex.map(_schunk, chunks))
        except (OSError, RuntimeError):
            return [_schunk(c) for c in chunks]

    key = "safetyworlds-" + digest(repo, [m for m in repo.modules if m in ("fickling.fickle", "fickling.analysis", "fickling.ml", "fickling.exception")], f"{tier}|{jobs}", [Path(__file__), Path(__file__).parent / "props" / "c06.py"])
    parts = cached(key, compute)
    found: Dict[str, Tuple[int, str]] = {}
    n = 0
    for outs in parts:
        for o in outs:
            n += 1
            if o[0] == "unsupported":
                raise AnalysisError(f"safety worlds: cannot interpret check_safety over {o[1]}")
            for key_, msg in o[1]:
                c, m = found.get(key_, (0, msg))
                found[key_] = (c + 1, m)
    return found, n


def position_family(n_max: int):
    """Findings that quote a position: a second PROTO as the n-th opcode, and a dangerous call as the n-th statement, n = 2..n_max
    (messages built from ordinal / index tables must exist for every position, not for the first few)."""
    out = []
    for n in range(2, n_max + 1):
        m = n - 2  # opcodes between the two PROTOs
        if m == 1:
            fill = b"\x95" + b"\x00" * 8  # FRAME 0: one opcode, nothing on the stack
        elif m % 2:
            fill = b"(K\x011" + b"K\x010" * ((m - 3) // 2)  # MARK BININT1 POP_MARK + pairs
        else:
            fill = b"K\x010" * (m // 2)
        out.append((f"a second PROTO as opcode #{n}", b"\x80\x02" + fill + b"\x80\x03K\x01."))
    for n in (1, 2, 9, 10, 11, 12, 13, 19, 21, 22, 23, n_max):
        out.append((f"os.system('id') as statement #{n}", b"\x80\x02" + b"ccollections\nOrderedDict\n)R0" * (n - 1) + b"cos\nsystem\n(S'id'\ntR."))
    return out


def report_safety(repo: Repo, rep, rule: str, tier: str):
    found, n = explore_safety(repo, tier)
    cs = repo.func("fickling.analysis.check_safety")
    for key, (c, msg) in sorted(found.items()):
        rep.bad(rule, cs.qualname, key, f"{msg} [{c} input(s)]", cs.file, cs.line)
    rep.ok(rule, cs.qualname, f"{n} byte strings (the corpus and every accepted program of up to 3 opcode tokens, plus call-centred programs of 4) parsed, decompiled and analysed end to end by the interpreted code: each that decompiles gets a verdict that is a Severity, findings with a severity and a message, and a report json.dumps accepts", "", nontrivial=True)
