from io import BytesIO


class Counter:
    def __init__(self):
        self.log = []

    def tick(self, tag):
        self.log.append(tag)
        return len(self.log)

    def me(self, tag):
        self.log.append(tag)
        return self

    @property
    def prop(self):
        self.log.append("prop")
        return 7

    def __getitem__(self, k):
        self.log.append(("getitem", k))
        return k

    def __contains__(self, k):
        self.log.append(("contains", k))
        return k == 1

    def __eq__(self, other):
        self.log.append("eq")
        return True

    def __hash__(self):
        return 1

    def __len__(self):
        self.log.append("len")
        return 2

    def __bool__(self):
        self.log.append("bool")
        return True


def t_compare_ne():
    c = Counter()
    r = c.tick("a") != 5
    return r, c.log


def t_compare_and():
    c = Counter()
    s = BytesIO(b"abcdef")
    if c.tick("x") < 2 and s.read(1) != b"\n":
        c.tick("then")
    return c.log, s.tell()


def t_compare_chain():
    c = Counter()
    r = 0 < c.tick("a") < c.tick("b") < 10
    return r, c.log


def t_compare_lt():
    c = Counter()
    r = c.tick("a") < c.tick("b")
    return r, c.log


def t_receiver_once():
    c = Counter()
    r = c.me("recv").tick("call")
    return r, c.log


def t_receiver_str():
    c = Counter()
    s = BytesIO(b"abc def")
    r = s.read(3).decode().upper()
    return r, s.tell()


def t_args_once():
    c = Counter()
    r = max(c.tick("a"), c.tick("b"))
    return r, c.log


def t_kwargs_once():
    c = Counter()
    r = dict(a=c.tick("a"), b=c.tick("b"))
    return r, c.log


def t_subscript_once():
    c = Counter()
    d = {1: "x", 2: "y"}
    r = d[c.tick("k")]
    return r, c.log


def t_subscript_inst():
    c = Counter()
    r = c[c.tick("k")]
    return r, c.log


def t_in_inst():
    c = Counter()
    r = c.tick("k") in c
    return r, c.log


def t_in_list():
    c = Counter()
    r = c.tick("k") in [c.tick("a"), c.tick("b")]
    return r, c.log


def t_boolop():
    c = Counter()
    r = c.tick("a") or c.tick("b")
    r2 = (c.tick("c") - 3) and c.tick("d")
    return r, r2, c.log


def t_ifexp():
    c = Counter()
    r = c.tick("a") if c.tick("t") else c.tick("b")
    return r, c.log


def t_fstring():
    c = Counter()
    r = f"{c.tick('a')}-{c.tick('b'):>3}"
    return r, c.log


def t_binop():
    c = Counter()
    r = c.tick("a") + c.tick("b") * c.tick("c")
    return r, c.log


def t_augassign():
    c = Counter()
    d = {"k": 1}
    d["k"] += c.tick("a")
    x = [1, 2]
    x[c.tick("i") - 2] += 10
    return d, x, c.log


def t_augassign_attr():
    c = Counter()
    c.n = 1
    c.me("r").n += c.tick("v")
    return c.n, c.log


def t_prop_once():
    c = Counter()
    r = c.prop + 1
    return r, c.log


def t_truth_inst():
    c = Counter()
    r = 1 if c else 2
    return r, c.log


def t_len_inst():
    c = Counter()
    r = len(c)
    return r, c.log


def t_eq_inst():
    c = Counter()
    r = c == 3
    return r, c.log


def t_listcomp():
    c = Counter()
    r = [c.tick(i) for i in range(3) if c.tick("f") < 100]
    return r, c.log


def t_dictcomp():
    c = Counter()
    r = {c.tick("k"): c.tick("v") for _ in range(2)}
    return r, c.log


def t_genexp_any():
    c = Counter()
    r = any(c.tick(i) == 2 for i in range(5))
    return r, c.log


def t_unpack():
    c = Counter()
    a, b = c.tick("a"), c.tick("b")
    a, b = b, a
    return a, b, c.log


def t_starred_call():
    c = Counter()
    r = max(*[c.tick("a"), c.tick("b")])
    return r, c.log


def t_with_stream():
    s = BytesIO(b"0123456789")
    s.seek(2)
    x = s.read(2) + s.read(1)
    return x, s.tell()


def t_while_read():
    s = BytesIO(b"abc")
    out = []
    while (ch := s.read(1)) != b"":
        out.append(ch)
    return out, s.tell()


def t_try_finally():
    c = Counter()
    try:
        c.tick("a")
        raise ValueError("x")
    except ValueError:
        c.tick("h")
    finally:
        c.tick("f")
    return c.log


def t_return_in_finally():
    c = Counter()

    def g():
        try:
            return c.tick("r")
        finally:
            c.tick("f")

    return g(), c.log


def t_default_once(x=[]):
    x.append(1)
    return len(x)


def t_default_twice():
    return t_default_once(), t_default_once()


def t_slice():
    c = Counter()
    x = list(range(10))
    r = x[c.tick("a"):c.tick("b") + 3]
    return r, c.log


def t_call_result_compare_is():
    c = Counter()
    r = c.me("a") is c.me("b")
    return r, c.log


def t_not():
    c = Counter()
    r = not c.tick("a")
    return r, c.log


def t_nested_call_args():
    c = Counter()
    r = str(int(c.tick("a")) + int(str(c.tick("b"))))
    return r, c.log


def t_method_on_call_result_list():
    c = Counter()
    r = [c.tick("a"), c.tick("b")].index(2)
    return r, c.log


def t_dict_get_call():
    c = Counter()
    d = {}
    r = d.get(c.tick("k"), c.tick("d"))
    return r, c.log


def t_setdefault():
    c = Counter()
    d = {}
    d.setdefault("k", []).append(c.tick("v"))
    return d, c.log


def t_print_like():
    c = Counter()
    "{}:{}".format(c.tick("a"), c.tick("b"))
    return c.log


def t_lambda():
    c = Counter()
    f = lambda x: x + c.tick("l")
    return f(1) + f(2), c.log


def t_sorted_key():
    c = Counter()
    r = sorted([3, 1, 2], key=lambda v: (c.tick(v), v)[1])
    return r, c.log


def t_isinstance_call():
    c = Counter()
    r = isinstance(c.me("a"), Counter)
    return r, c.log


def t_hasattr_call():
    c = Counter()
    r = hasattr(c.me("a"), "log")
    return r, c.log


def t_getattr_call():
    c = Counter()
    r = getattr(c.me("a"), "missing", c.tick("d"))
    return r, c.log


def t_del():
    c = Counter()
    d = {1: 1, 2: 2}
    del d[c.tick("k")]
    return d, c.log


def t_assert():
    c = Counter()
    assert c.tick("a") == 1, "no"
    return c.log


def t_for_else():
    c = Counter()
    for i in range(c.tick("n") + 1):
        if i == 5:
            break
    else:
        c.tick("else")
    return c.log


def t_enumerate_zip():
    c = Counter()
    r = [(i, a, b) for i, (a, b) in enumerate(zip([c.tick("x")], [c.tick("y")]))]
    return r, c.log


def t_bytes_ops():
    s = BytesIO(b"\x80\x04K\x01.")
    b = bytearray()
    b.extend(s.read(2))
    b += s.read(1)
    return bytes(b), s.tell(), s.read()
