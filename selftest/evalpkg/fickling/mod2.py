import struct
from abc import ABC, abstractmethod
from enum import Enum


class Base(ABC):
    registry = []
    kind = "base"

    def __init_subclass__(cls, **kwargs):
        super().__init_subclass__(**kwargs)
        Base.registry.append(cls.__name__)

    def __init__(self, v):
        self.v = v
        self._cache = None

    @property
    def double(self):
        if self._cache is None:
            self._cache = self.v * 2
        return self._cache

    @double.setter
    def double(self, x):
        self._cache = x

    @classmethod
    def make(cls, v):
        return cls(v + 1)

    @staticmethod
    def helper(a, b=2):
        return a * b

    @abstractmethod
    def name(self):
        raise NotImplementedError()

    def describe(self):
        return f"{self.name()}:{self.v}:{self.kind}"


class A(Base):
    kind = "a"

    def name(self):
        return "A"


class B(A):
    def __init__(self, v, extra=0):
        super().__init__(v)
        self.extra = extra

    def name(self):
        return "B" + super().name()

    def describe(self):
        return super().describe() + f"+{self.extra}"


class Color(Enum):
    RED = 1
    GREEN = 2

    def __lt__(self, other):
        return self.value < other.value


def t_classes():
    b = B.make(3)
    a = A(1)
    return a.describe(), b.describe(), b.double, Base.registry, isinstance(b, A), isinstance(a, B), B.helper(3), a.helper(3, b=3)


def t_setter():
    a = A(2)
    x = a.double
    a.double = 10
    return x, a.double, a._cache


def t_enum():
    return Color.RED < Color.GREEN, Color(2).name, [c.name for c in Color], Color.RED is Color(1), Color["GREEN"].value, max(Color.RED, Color.GREEN).name


def t_generator():
    def gen(n):
        for i in range(n):
            if i == 2:
                continue
            yield i * i
        yield "end"

    g = gen(4)
    first = next(g)
    return first, list(g), list(gen(0))


def t_closure_nonlocal():
    def counter():
        n = 0

        def inc(by=1):
            nonlocal n
            n += by
            return n

        return inc

    c1, c2 = counter(), counter()
    return c1(), c1(5), c2()


G = 0


def _bump():
    global G
    G += 1
    return G


def t_global():
    return _bump(), _bump()


def t_exceptions():
    log = []

    def f(x):
        if x == 0:
            raise KeyError("zero")
        if x == 1:
            raise ValueError("one")
        return x

    for x in (0, 1, 2):
        try:
            log.append(f(x))
        except (KeyError, IndexError):
            log.append("lookup")
        except ValueError as e:
            log.append("value")
        else:
            log.append("else")
        finally:
            log.append("fin")
    return log


def t_exception_propagates():
    def g():
        try:
            raise TypeError("t")
        except ValueError:
            return "wrong"
        finally:
            pass

    try:
        g()
    except TypeError:
        return "type"
    return "none"


def t_struct():
    return struct.pack("<I", 258), struct.unpack(">H", b"\x01\x02"), struct.pack("<q", -2), (1234).to_bytes(2, "little"), int.from_bytes(b"\xff\xfe", "little", signed=True)


def t_slicing():
    x = list(range(10))
    b = b"abcdefgh"
    return x[::2], x[::-1][:3], x[-3:], b[1:-1], b[::3], x[2:8:3], "hello"[1:][::-1]


def t_strings():
    s = "a.b.c"
    return s.rsplit(".", 1), s.split("."), s.partition("."), "%s-%d" % ("x", 3), "{0}{1!r}".format(1, "q"), s.replace(".", "_").upper(), "x".join(["1", "2"]), s.startswith(("a", "z")), repr("it's"), f"{3.14159:.2f}|{255:#x}|{'s':>4}|{7:03d}"


def t_dict_order():
    d = {}
    d["b"] = 1
    d["a"] = 2
    d["b"] = 3
    del d["a"]
    d["c"] = 4
    d.update({"a": 5})
    return list(d), list(d.items()), d.pop("b"), list(d.values()), {**d, "z": 0}, sorted(d, reverse=True)


def t_sets():
    a, b = {1, 2, 3}, {3, 4}
    return sorted(a | b), sorted(a & b), sorted(a - b), sorted(a ^ b), a <= a | b, 3 in a, frozenset(a) == frozenset([3, 2, 1])


def t_sorted_min_max():
    xs = [("b", 2), ("a", 2), ("c", 1)]
    return sorted(xs, key=lambda t: t[1]), sorted(xs, key=lambda t: (-t[1], t[0])), min(xs, key=lambda t: t[1]), max(xs), sum(t[1] for t in xs), max([], default=None)


def t_star_unpack():
    a, *b, c = [1, 2, 3, 4]
    (x, y), z = (1, 2), 3
    return a, b, c, x, y, z, [*b, *b], {**{"k": 1}}


def t_loops():
    out = []
    i = 0
    while i < 5:
        i += 1
        if i == 2:
            continue
        if i == 4:
            break
        out.append(i)
    else:
        out.append("else")
    for a, (b, c) in [(1, (2, 3)), (4, (5, 6))]:
        out.append(a + b + c)
    for i, ch in enumerate("ab", start=1):
        out.append((i, ch))
    for p, q in zip([1, 2, 3], "xy"):
        out.append((p, q))
    return out, list(reversed([1, 2, 3])), list(range(5, 0, -2))


def t_comprehension_scope():
    x = 10
    ys = [x for x in range(3)]
    zs = {k: v for k, v in zip("ab", ys)}
    nested = [(i, j) for i in range(3) for j in range(i) if (i + j) % 2]
    return x, ys, zs, nested, {c for c in "aab"} == {"a", "b"}


def t_bool_semantics():
    return [] or "d", 0 and 1, None or 0 or "", not [], bool({}), 1 if "" else 2, [1] and [2], 0 == False, 1 is True, "a" < "b" < "c", 1 < 2 > 1


def t_int_float():
    return 7 // 2, -7 // 2, 7 % 3, -7 % 3, 2 ** 10, 7 / 2, divmod(7, 2), round(2.5), int("12") + int("0x1f", 16), abs(-3), 1 << 4 | 1, ~5, 5 ^ 3, float("1e3"), int(3.9), 10 ** -1


def t_bytes():
    ba = bytearray(b"ab")
    ba.append(99)
    ba.extend(b"de")
    ba[0] = 65
    return bytes(ba), ba[1:3], b"x" * 3, b"abc".hex(), bytes.fromhex("4142"), bytes([65, 66]), list(b"AB"), b"a" + bytes(2), b"abc".find(b"c"), "é".encode("utf-8"), b"\xc3\xa9".decode("utf-8"), len("é".encode()), b"%d" % 5


def t_getattr_dyn():
    a = A(1)
    setattr(a, "dyn", 5)
    return getattr(a, "dyn"), getattr(a, "nope", "dflt"), hasattr(a, "v"), hasattr(a, "w"), type(a).__name__, a.__class__.__name__, callable(a.name)


def t_default_args():
    def f(a, b=2, *args, c=3, **kw):
        return a, b, args, c, sorted(kw.items())

    return f(1), f(1, 5, 6, 7, c=9, z=0), f(a=1, b=3), f(*[1, 2, 3], **{"c": 4})


def t_lambda_defaults():
    fs = [lambda x, i=i: x + i for i in range(3)]
    gs = [lambda x: x + i for i in range(3)]
    return [f(10) for f in fs], [g(10) for g in gs]


def t_nested_data_mutation():
    a = [1, 2]
    b = a
    b.append(3)
    c = list(a)
    c.append(4)
    d = {"k": a}
    d["k"].append(5)
    t = (a, a)
    return a, c, t[0] is t[1], a is b, a == [1, 2, 3, 5]


def t_str_of_things():
    return str(None), str(True), str(1.0), str([1, "a"]), str({"a": (1,)}), repr(b"x"), str(b"x"), f"{None}{[1]}{(1,)!r}", "%r" % ("s",)


def t_isinstance_tuple():
    return isinstance(1, (int, str)), isinstance("s", (int, bytes)), isinstance(True, int), isinstance(b"", (bytes, bytearray)), issubclass(B, Base), issubclass(A, B), type(1) is int, type("s") == str
