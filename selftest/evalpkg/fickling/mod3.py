def t_exc1():
    log = []

    def f(x):
        if x == 0:
            raise KeyError("zero")
        return x

    for x in (0, 2):
        try:
            log.append(f(x))
        except (KeyError, IndexError):
            log.append("lookup")
        finally:
            log.append("fin")
    return log


def t_exc2():
    log = []
    for x in (0, 2):
        try:
            log.append(x)
        finally:
            log.append("fin")
    return log


def t_exc3():
    log = []
    try:
        log.append(1)
    except ValueError as e:
        log.append("value")
    else:
        log.append("else")
    return log
