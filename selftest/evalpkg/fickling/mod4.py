import ast
from collections.abc import MutableSequence
from io import BytesIO


class CM:
    def __init__(self, log, swallow=False):
        self.log = log
        self.swallow = swallow

    def __enter__(self):
        self.log.append("enter")
        return self

    def __exit__(self, exc_type, exc, tb):
        self.log.append(("exit", exc_type is not None))
        return self.swallow


def t_with_instance():
    log = []
    with CM(log) as c:
        log.append("body")
    return log, isinstance(c, CM)


def t_with_exception():
    log = []
    try:
        with CM(log):
            raise ValueError("x")
    except ValueError:
        log.append("caught")
    return log


def t_with_swallow():
    log = []
    with CM(log, swallow=True):
        raise ValueError("x")
    log.append("after")
    return log


def t_with_return():
    log = []

    def f():
        with CM(log):
            return 5

    return f(), log


def t_with_bytesio():
    with BytesIO(b"abc") as f:
        d = f.read(2)
    return d, f.closed


class Seq(MutableSequence):
    def __init__(self, items):
        self._items = list(items)
        self.events = []

    def __len__(self):
        return len(self._items)

    def __getitem__(self, i):
        return self._items[i]

    def __setitem__(self, i, v):
        self.events.append(("set", i))
        self._items[i] = v

    def __delitem__(self, i):
        self.events.append(("del", i))
        del self._items[i]

    def insert(self, i, v):
        self.events.append(("ins", i))
        self._items.insert(i, v)


def t_seq_protocols():
    s = Seq([1, 2, 3])
    s[0] = 10
    del s[1]
    s.insert(1, 7)
    return list(s), len(s), 7 in s, s[-1], s[0:2], [x for x in s], s.events, bool(Seq([])), list(reversed(s)), s.index(7), s.count(3)


def t_seq_mixins():
    s = Seq([1, 2])
    s.append(3)
    s.extend([4, 5])
    p = s.pop()
    s.remove(1)
    s += [9]
    s.reverse()
    return list(s), p, s.events


class V(ast.NodeVisitor):
    def __init__(self):
        self.names = []
        self.calls = 0

    def visit_Name(self, node):
        self.names.append(node.id)

    def visit_Call(self, node):
        self.calls += 1
        self.generic_visit(node)


def t_node_visitor():
    v = V()
    v.visit(ast.parse("f(a, g(b), c=d)\nx = y"))
    return v.names, v.calls


class New:
    made = 0

    def __new__(cls, *a, **k):
        if cls is New:
            return Sub.__new__(Sub, *a, **k)
        New.made += 1
        return super().__new__(cls)

    def __init__(self, v=0):
        self.v = v


class Sub(New):
    pass


def t_new_dispatch():
    a = New(3)
    b = Sub(4)
    return type(a).__name__, a.v, type(b).__name__, b.v, New.made


class WithSlots:
    count = 0

    def __init__(self):
        WithSlots.count += 1
        self.id = WithSlots.count
        type(self).last = self.id


def t_class_attr_mutation():
    a, b = WithSlots(), WithSlots()
    return a.id, b.id, WithSlots.count, WithSlots.last, a.last, a.count


def t_str_repr_dunder():
    class P:
        def __init__(self, x):
            self.x = x

        def __repr__(self):
            return f"P({self.x})"

        def __str__(self):
            return f"<{self.x}>"

    p = P(1)
    return str(p), repr(p), f"{p} {p!r}", "%s %r" % (p, p), str([p]), "{}".format(p)


def t_iter_protocol():
    class It:
        def __init__(self):
            self.n = 0

        def __iter__(self):
            return self

        def __next__(self):
            self.n += 1
            if self.n > 3:
                raise StopIteration
            return self.n

    it = It()
    a = next(it)
    return a, list(it), list(it)


def t_dict_of_lists_default():
    from collections import defaultdict

    d = defaultdict(list)
    d["a"].append(1)
    d["b"]
    return dict(d), sorted(d), "c" in d, len(d)


def t_exception_attrs():
    class MyErr(ValueError):
        def __init__(self, msg, code):
            super().__init__(msg)
            self.code = code

    try:
        raise MyErr("boom", 7)
    except ValueError as e:
        return type(e).__name__, e.code, str(e), isinstance(e, MyErr)


def t_raise_from_and_reraise():
    log = []
    try:
        try:
            raise KeyError("k")
        except KeyError as e:
            log.append("inner")
            raise ValueError("v") from e
    except ValueError as e2:
        log.append(type(e2.__cause__).__name__)
    try:
        try:
            raise IndexError("i")
        except IndexError:
            raise
    except LookupError:
        log.append("reraised")
    return log
