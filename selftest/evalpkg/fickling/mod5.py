from collections import defaultdict
from typing import Any, Dict, Iterator, List, Optional


class MyErr(ValueError):
    def __init__(self, msg, code=0):
        super().__init__(msg)
        self.code = code


class Other(Exception):
    pass


class P:
    def __init__(self, x):
        self.x = x

    def __repr__(self):
        return f"P({self.x})"

    def __str__(self):
        return f"<{self.x}>"

    def __eq__(self, other):
        return isinstance(other, P) and other.x == self.x

    def __hash__(self):
        return hash(self.x)

    def __lt__(self, other):
        return self.x < other.x


class It:
    def __init__(self, n):
        self.n = n
        self.i = 0

    def __iter__(self):
        return self

    def __next__(self):
        self.i += 1
        if self.i > self.n:
            raise StopIteration
        return self.i


class Box:
    def __init__(self, items):
        self._items = list(items)

    def __iter__(self) -> Iterator[Any]:
        return iter(self._items)

    def __len__(self):
        return len(self._items)

    def gen(self):
        for x in self._items:
            if x % 2:
                yield x
        yield from [100, 200]


def t_custom_exception():
    out = []
    for k in (0, 1, 2):
        try:
            if k == 0:
                raise MyErr("boom", 7)
            if k == 1:
                raise Other("o")
            out.append("fine")
        except MyErr:
            out.append("myerr")
        except Exception:
            out.append("exc")
    return out


def t_exception_is_valueerror():
    try:
        raise MyErr("x")
    except ValueError:
        return "as-valueerror"
    except Exception:
        return "as-exception"


def t_exception_not_caught_by_sibling():
    try:
        try:
            raise Other("o")
        except ValueError:
            return "wrong"
    except Other:
        return "outer"


def t_str_repr():
    p = P(1)
    return str(p), repr(p), f"{p} {p!r}", "%s %r" % (p, p), str([p]), "{}".format(p), str((p,)), str({"k": p})


def t_eq_hash():
    a, b, c = P(1), P(1), P(2)
    return a == b, a != b, a == c, a != c, a in [c, b], [c, b].index(a), {a: 1}.get(b), len({a, b, c}), a == 1, sorted([c, a])[0].x, max(a, c).x, [a, c] == [b, c], (a,) == (b,)


def t_iter_protocol():
    it = It(3)
    a = next(it)
    rest = list(it)
    again = list(it)
    b = Box([1, 2, 3])
    return a, rest, again, list(b), [x for x in b], len(b), list(b.gen()), sum(b), sorted(b, reverse=True), tuple(b), 2 in b, list(zip(b, "ab")), list(enumerate(b)), next(iter(b)), max(b), any(x > 2 for x in b), dict.fromkeys(b, 0) if False else None


def t_generator_laziness_visible():
    b = Box([1, 2, 3])
    g = b.gen()
    first = next(g)
    rest = list(g)
    return first, rest, list(g)


def t_defaultdict():
    d = defaultdict(list)
    d["a"].append(1)
    d["b"]
    e: Dict[str, int] = defaultdict(int)
    e["x"] += 2
    return dict(d), sorted(d), "c" in d, len(d), dict(e)


def t_optional_chains():
    def f(x: Optional[List[int]] = None):
        if x is None:
            x = []
        x.append(1)
        return x

    a = f()
    b = f()
    c = f(a)
    return a, b, c is a


def t_string_methods_more():
    s = "  Hello, World  "
    return s.strip().lower(), s.lstrip(), s.find("W"), s.count("l"), "a,b,,c".split(","), "abc".isalpha(), "12".isdigit(), "x=1".partition("="), "ab".center(6, "*"), "a\nb\r\nc".splitlines(), "abc"[::-1], "Abc".swapcase(), "%5.1f|%-4s|%04d" % (3.14159, "ab", 42), "{:>6}|{:<4}|{:^5}".format("a", "b", "c"), "{a}-{b}".format(a=1, b=2), "é".encode("utf-8", "replace"), "x".zfill(3), "tEsT".title()


def t_int_edge():
    return int("-5"), int(" 7 "), int("10", 2), int.from_bytes(b"\x01\x00", "big"), (255).to_bytes(1, "big"), (-1).to_bytes(2, "little", signed=True), bool(0), bool(-1), 5 // -2, 5 % -2, pow(2, 5), pow(2, 5, 7), hex(255), oct(8), bin(5), chr(65), ord("a"), round(3.567, 1), min(3, 1, 2), max([1], [0, 5]), (1).bit_length(), 7 .real


def t_tuple_list_ops():
    t = (1, 2, 3)
    l = [3, 1, 2]
    l.sort()
    l2 = l[:]
    l2.reverse()
    return t + (4,), t * 2, t[1:], t.index(2), l, l2, l + [9], l * 0, [1, [2, [3]]][1][1][0], list("ab"), tuple([1]), [*t, *l], t < (1, 2, 4), [1, 2] < [1, 3], l.pop(0), l, l.count(2), (t, l)[0] is t


def t_function_level_import():
    import struct as st
    from io import BytesIO as B

    b = B(b"\x01\x02")
    return st.pack("<H", 513), b.read(1), st.calcsize("<Q")


def _note(log, what):
    log.append(what)
    return f"<{what}>"


def t_raise_argument_effects():
    log = []
    try:
        raise MyErr("refused " + _note(log, "helper ran"), code=len(log))
    except MyErr:
        log.append("caught")
    return log


class _Src:
    def __init__(self):
        self.pos = 0

    def take(self):
        self.pos += 1
        return self

    @property
    def items(self):
        return iter([self.pos])


def t_receiver_once_when_attribute_is_not_callable():
    s = _Src()
    try:
        s.take().items()
    except TypeError:
        pass
    return s.pos
