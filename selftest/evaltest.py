"""Differential self-test of the interpreter (sa.objeval / sa.minieval) against CPython.

selftest/evalpkg/fickling/mod*.py hold small synthetic functions `t_*` that exercise evaluation order, once-only evaluation of
operands with side effects, the statement kinds, the object protocols, closures, generators, context managers, enums, class
creation hooks.  Each is run by CPython and interpreted by sa.objeval from its source; the interpreter must give the same
value, or say Unsupported (its "cannot tell", which the checks turn into ANALYSIS-ERROR).  Any other disagreement - a different
value, an exception CPython does not raise - is a silent mis-interpretation and fails this test.  Nothing of /repo is involved.

Usage: /venv/bin/python -m selftest.evaltest        (exit 0 = no silent disagreement)
"""

import importlib.util
import os
import sys
from pathlib import Path

HERE = Path(__file__).resolve().parent
PKG = HERE / "evalpkg"
os.environ["FICKLING_REPO"] = str(PKG)
sys.path.insert(0, str(HERE.parent))

from sa.minieval import PyRaise, Unsupported  # noqa: E402
from sa.model import load_repo  # noqa: E402
from sa.objeval import Instance, ObjEval  # noqa: E402


def main() -> int:
    import warnings

    warnings.simplefilter("ignore")
    repo = load_repo()
    silent = agree = unsupported = 0
    for path in sorted((PKG / "fickling").glob("mod*.py")):
        spec = importlib.util.spec_from_file_location("evalmod", path)
        real = importlib.util.module_from_spec(spec)
        spec.loader.exec_module(real)
        m = repo.modules["fickling." + path.stem]

        def norm(v):
            if isinstance(v, Instance) or (type(v).__module__ == "evalmod" and not isinstance(v, type) and not hasattr(v, "value")):
                return "<inst>"
            if isinstance(v, (list, tuple)):
                return type(v)(norm(x) for x in v)
            if isinstance(v, dict):
                return {norm(k): norm(x) for k, x in v.items()}
            return v

        for name in sorted(n for n in dir(real) if n.startswith("t_") and n != "t_default_once"):
            want = norm(getattr(real, name)())
            oe = ObjEval(repo)
            try:
                got = norm(oe.module_global(m, name)())
            except Unsupported as e:
                unsupported += 1
                print(f"  unsupported {path.stem}.{name}: {str(e)[:90]}")
                continue
            except PyRaise as pe:
                got = ("RAISES", pe.name)
            except Exception as e:  # the interpreter itself failed
                got = ("INTERNAL", type(e).__name__, str(e)[:80])
            if got == want:
                agree += 1
            else:
                silent += 1
                print(f"SILENT-DISAGREEMENT {path.stem}.{name}\n   python     : {want}\n   interpreter: {got}")
    print(f"{agree} agree, {unsupported} unsupported (safe), {silent} silent disagreement(s)")
    return 1 if silent or agree < 80 else 0


if __name__ == "__main__":
    sys.exit(main())
