"""Self-test of the checkers, both directions (not a MANIFEST command; validates the machinery).

Each variant in `selftest/variants/*.py` is a textual edit of one file of a scratch copy of
/repo/fickling (outside /repo and /verif, deleted immediately).  `expect` is `fire` (exit 1 and a
VIOLATION whose finding key contains `key`) or `silent` (same exit code and KNOWN-FINDING set as the
unmodified tree).  Usage:  /venv/bin/python -m selftest.run [-k substr] [-j N] [--list]
"""

from __future__ import annotations

import argparse
import importlib
import os
import pkgutil
import py_compile
import shutil
import subprocess
import sys
import tempfile
from concurrent.futures import ThreadPoolExecutor
from pathlib import Path

VERIF = Path(__file__).resolve().parent.parent
REPO = Path(os.environ.get("FICKLING_REPO", "/repo"))
PY = "/venv/bin/python"


def load_variants():
    import selftest.variants as pkg

    out = []
    for m in pkgutil.iter_modules(pkg.__path__):
        mod = importlib.import_module(f"selftest.variants.{m.name}")
        for v in getattr(mod, "VARIANTS", []):
            v = dict(v)
            v.setdefault("expect", "fire")
            out.append(v)
    ids = [v["id"] for v in out]
    dup = {i for i in ids if ids.count(i) > 1}
    if dup:
        raise SystemExit(f"duplicate variant ids: {dup}")
    return out


def run_check(pid: str, root: Path, evid: Path):
    env = dict(os.environ, FICKLING_REPO=str(root), SA_EVIDENCE_DIR=str(evid), SA_JOBS=os.environ.get("SA_JOBS", "2"), SA_CACHE_DIR=os.environ.get("SA_CACHE_DIR", "/tmp/sa-cache"))
    p = subprocess.run([PY, "-m", "sa.check", pid], cwd=VERIF, env=env, capture_output=True, text=True, timeout=600)
    return p.returncode, p.stdout + p.stderr


def apply_patch(root: Path, v: dict):
    patch = VERIF / v["patch"]
    p = subprocess.run(["patch", "-p1", "-s", "-f", "--no-backup-if-mismatch", "-i", str(patch)], cwd=root, capture_output=True, text=True)
    if p.returncode != 0:
        raise RuntimeError(f"{v['id']}: patch does not apply: {p.stdout[-300:]} {p.stderr[-200:]}")
    for f in (root / "fickling").rglob("*.py"):
        compile(f.read_text(), str(f), "exec")


def apply_edits(root: Path, v: dict):
    if v.get("patch"):
        return apply_patch(root, v)
    edits = v.get("edits") or [{"file": v["file"], "old": v["old"], "new": v["new"], "count": v.get("count", 1)}]
    for e in edits:
        p = root / e["file"]
        if "create" in e:
            p.write_text(e["create"])
            compile(e["create"], str(p), "exec")
            continue
        s = p.read_text()
        n = s.count(e["old"])
        if n != e.get("count", 1):
            raise RuntimeError(f"{v['id']}: `old` text occurs {n} times in {e['file']} (expected {e.get('count', 1)})")
        s = s.replace(e["old"], e["new"])
        p.write_text(s)
        compile(s, str(p), "exec")


_BASE = {}


def baseline(pid: str):
    if pid not in _BASE:
        tmp = Path(tempfile.mkdtemp(prefix="sa-base-"))
        try:
            code, out = run_check(pid, REPO, tmp / "ev")
        finally:
            shutil.rmtree(tmp, ignore_errors=True)
        known = sorted(l for l in out.splitlines() if l.startswith("KNOWN-FINDING"))
        _BASE[pid] = (code, known, out)
    return _BASE[pid]


def run_variant(v: dict):
    tmp = Path(tempfile.mkdtemp(prefix="sa-var-"))
    try:
        root = tmp / "repo"
        shutil.copytree(REPO / "fickling", root / "fickling")
        try:
            apply_edits(root, v)
        except Exception as e:
            return v, False, f"variant does not apply/compile: {e}"
        results = []
        okay = True
        msgs = []
        for pid in v["property"] if isinstance(v["property"], list) else [v["property"]]:
            code, out = run_check(pid, root, tmp / "ev")
            bcode, bknown, _ = baseline(pid)
            if v["expect"] == "fire":
                keys = [l for l in out.splitlines() if "finding:" in l or l.startswith("VIOLATION")]
                hit = code == 1 and (v.get("key") is None or any(v["key"] in l for l in out.splitlines()))
                if not hit:
                    okay = False
                    msgs.append(f"{pid}: expected VIOLATION containing {v.get('key')!r}, got exit {code}\n" + "\n".join(out.splitlines()[-12:]))
            else:
                known = sorted(l for l in out.splitlines() if l.startswith("KNOWN-FINDING"))
                strip = lambda ls: sorted(x.split(" at ")[0] for x in ls)
                if code != bcode or strip(known) != strip(bknown):
                    okay = False
                    msgs.append(f"{pid}: expected silence (exit {bcode}), got exit {code}\n" + "\n".join(out.splitlines()[-12:]))
        return v, okay, "\n".join(msgs)
    finally:
        shutil.rmtree(tmp, ignore_errors=True)


def main():
    ap = argparse.ArgumentParser()
    ap.add_argument("-k", default=None)
    ap.add_argument("-j", type=int, default=16)
    ap.add_argument("--list", action="store_true")
    ap.add_argument("-v", action="store_true")
    args = ap.parse_args()
    vs = load_variants()
    if args.k:
        vs = [v for v in vs if args.k in v["id"] or args.k in str(v["property"])]
    if args.list:
        for v in vs:
            print(v["id"], v["property"], v["expect"], v.get("key", ""))
        return 0
    # warm baselines serially (cheap)
    for pid in sorted({p for v in vs for p in (v["property"] if isinstance(v["property"], list) else [v["property"]])}):
        code, known, out = baseline(pid)
        if code not in (0,):
            print(f"!! baseline {pid} exits {code}")
    fails = 0
    with ThreadPoolExecutor(max_workers=args.j) as ex:
        for v, okay, msg in ex.map(run_variant, vs):
            if not okay:
                fails += 1
                print(f"FAIL {v['id']} ({v['expect']}): {msg}")
            elif args.v:
                print(f"ok   {v['id']} ({v['expect']})")
    print(f"{len(vs) - fails}/{len(vs)} variants behaved as expected")
    return 1 if fails else 0


if __name__ == "__main__":
    sys.exit(main())
