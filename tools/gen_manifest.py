"""Regenerates /verif/MANIFEST.json from the table below (run by hand; not part of any check)."""

import json
from pathlib import Path

VERIF = Path(__file__).resolve().parent.parent

CLAIMED = {
    # pid: (technique, level text, level note, design ref)
}

NOT_APPLICABLE = {}


def load_tables():
    ns = {}
    exec((VERIF / "tools" / "manifest_tables.py").read_text(), ns)
    return ns["CLAIMED"], ns["NOT_APPLICABLE"], ns.get("NOTES", "")


def main():
    claimed, na, notes = load_tables()
    props = [json.loads(l)["id"] for l in (VERIF / "properties.jsonl").read_text().splitlines() if l.strip()]
    checks = []
    for pid in props:
        if pid in claimed:
            c = claimed[pid]
            checks.append(
                {
                    "property_id": pid,
                    "quick_cmd": f"/venv/bin/python -m sa.check {pid} --tier quick",
                    "thorough_cmd": f"/venv/bin/python -m sa.check {pid} --tier thorough",
                    "evidence_file": f"evidence/{pid}.json",
                    "replay_cmd_template": "/venv/bin/python -m sa.check --explain {path}",
                    "engine": "sa",
                    "level_claimed": {"category": "other", "text": c["level"], "design_ref": c.get("design_ref", f"DESIGN.md section 3, {pid}")},
                    "level_note": c["note"],
                    "technique": c["technique"],
                }
            )
    missing = [p for p in props if p not in claimed and p not in na]
    if missing:
        raise SystemExit(f"properties neither claimed nor not_applicable: {missing}")
    manifest = {
        "version": 1,
        "setup_cmd": "true",
        "hooks": {
            "guard": "FICKLING_VERIF",
            "enable": "none needed: the checks parse /repo's source and never import or run it; no instrumentation exists in /repo",
            "baseline_off_cmd": "cd /repo && /venv/bin/python -m pytest -ra -q -p no:cacheprovider --timeout=900 --continue-on-collection-errors",
            "source_commits": [],
            "add_only": True,
        },
        "engines": [
            {
                "name": "sa",
                "path": "sa/",
                "serves_properties": [p for p in props if p in claimed],
                "kind_free_text": "repository-specific static analysis on Python's ast: repo model + class-hierarchy call graph, statement CFG with dominators, abstract interpreter for the opcode handlers checked against pickletools' table, finite-domain evaluation of the Severity operators",
            }
        ],
        "checks": checks,
        "not_applicable": [{"property_id": p, "reason": r} for p, r in na.items() if p not in claimed],
        "notes": notes,
    }
    (VERIF / "MANIFEST.json").write_text(json.dumps(manifest, indent=1) + "\n")
    print(f"MANIFEST.json: {len(checks)} checks, {len(manifest['not_applicable'])} not applicable")


if __name__ == "__main__":
    main()
