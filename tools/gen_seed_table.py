"""Regenerate seeded/TABLE.md (the seed -> catching rules table that DESIGN.md section 9.5 refers to) from
seeded/<id>/meta.json, seeded/<id>/current.json and seeded/RESULTS.json (written by tools/run_seeds.py --all-props)."""
import json
from pathlib import Path

V = Path(__file__).resolve().parent.parent
res = json.load(open(V / "seeded" / "RESULTS.json"))
rows = []
stats = {"caught": 0, "neutralised": 0, "missed": 0, "undecided": 0}
for d in sorted(p for p in (V / "seeded").iterdir() if p.is_dir()):
    meta = json.load(open(d / "meta.json"))
    cur = json.load(open(d / "current.json")) if (d / "current.json").exists() else {}
    r = res.get(d.name, {})
    by = r.get("caught_by", {})
    rules = "; ".join(f"{p}: " + ", ".join(sorted({k.split('|')[0] for k in ks})) for p, ks in sorted(by.items()))
    status = cur.get("status", "?")
    if r.get("status") == "CAUGHT":
        stats["caught"] += 1
    elif status == "neutralised-by-fix":
        stats["neutralised"] += 1
        rules = "— (neutralised by a later `fix:` commit: its demonstration passes on the current tree; every check is silent, as it must be)"
    elif r.get("status") == "UNDECIDED":
        stats["undecided"] += 1
        rules = "UNDECIDED (exit 2)"
    else:
        stats["missed"] += 1
        rules = "MISSED"
    summ = " ".join(str(meta.get("summary", "")).split())
    rows.append(f"| {d.name} | {summ[:230]} | {rules} |")
out = ["# Independently seeded changes and the rules that catch them", "", f"{len(rows)} seeds: {stats['caught']} caught by a VIOLATION naming the changed construct, {stats['neutralised']} neutralised by a later fix (silent), {stats['undecided']} undecided, {stats['missed']} missed.", "", "| seed | change (author's summary) | caught by (property: rules) |", "|---|---|---|"] + rows
(V / "seeded" / "TABLE.md").write_text("\n".join(out) + "\n")
print(stats)
