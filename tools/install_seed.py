"""Copy a confirmed seeded change (dir with patch.diff, demo.py, meta.json, verify.json) into /verif/seeded/."""
import json, shutil, subprocess, sys
from pathlib import Path
head = subprocess.run(["git", "-C", "/repo", "log", "--oneline", "-1"], capture_output=True, text=True).stdout.strip()
for a in sys.argv[1:]:
    d = Path(a)
    v = json.load(open(d / "verify.json"))
    if not v.get("ok"):
        print("NOT CONFIRMED, skipped:", d.name, v.get("error", "")); continue
    m = json.load(open(d / "meta.json"))
    out = Path("/verif/seeded") / d.name
    out.mkdir(parents=True, exist_ok=True)
    shutil.copy(d / "patch.diff", out / "patch.diff"); shutil.copy(d / "demo.py", out / "demo.py")
    m["breaks_property"] = m.get("property", d.name.split("-")[0])
    m["origin"] = "written by an independent sub-agent given only the property text and a scratch worktree"
    m["confirmed"] = {"by": "tools/verify_seed.py in a scratch worktree of /repo", "base_commit": v.get("base", head),
        "demo_without_patch_rc": v["demo_without_patch"]["rc"], "demo_with_patch_rc": v["demo_with_patch"]["rc"],
        "demo_with_patch_tail": v["demo_with_patch"]["tail"][-200:],
        "test_suite": f"{v['tests']['stable_passing']}/{v['tests']['stable_total']} stable baseline tests pass with the patch",
        "commands": ["git apply patch.diff", "cd <worktree> && /venv/bin/python demo.py", "cd <worktree> && /venv/bin/python -m pytest -q -p no:cacheprovider --timeout=900 --junitxml=..."]}
    json.dump(m, open(out / "meta.json", "w"), indent=1)
    print("installed", d.name)
