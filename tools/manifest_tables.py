# Tables read by tools/gen_manifest.py.  One entry per claimed property.
NOTES = (
    "Technique family: static analysis. Every check parses /repo's current source (never imports or runs fickling) "
    "and reports a named construct. Exit 0 = obligations discharged (KNOWN-FINDING lines for findings listed in "
    "known_findings.json); exit 1 + VIOLATION = unlisted finding; exit 2 + ANALYSIS-ERROR = undecided (vanished anchor / "
    "unrecognised idiom), never a verdict. Self-test of the checkers: /venv/bin/python -m selftest.run."
)

CLAIMED = {
    "C10": dict(
        technique="finite-domain evaluation of the Severity operators (36 pairs x 6 operators, exhaustive) + structural agreement table over the six consumer faces (CFG dominance, comparison normal forms)",
        level="Decides, from the source alone and exhaustively over the finite operator/member space, that Severity is the documented strict total order under every comparison operator, that the aggregate is LIKELY_SAFE-iff-empty else max over all collected findings with nothing dropped on the way, and that each face (verdict, boolean query, checked loader, CLI exit status, JSON report, exception info) applies the required predicate to that same severity. What findings a given pickle produces is C04's business and is not decided here.",
        note="Trusted: Python's Enum semantics (members are singletons; value tuples compare lexicographically), the small pure-expression evaluator in sa/minieval.py, and that comparisons are between Severity members only.",
    ),
    "C14": dict(
        technique="cache-invalidation discipline: per-method CFG post-dominance of cache resets over every mutation site of the opcode list, whole-package single-writer scan, MutableSequence mix-in routing read from Lib/_collections_abc.py; ownership of the opcode list (stored value is a container the object created; the live list is never handed out)",
        level="Decides the whole property as an ownership/invalidations rule: every mutation of Pickled's opcode list is followed on all normal paths by a reset of every derived cache, nothing outside the class writes the list or the caches, the inherited MutableSequence mix-ins route through the three audited mutators, and every view is recomputed from the live list. Equality with a freshly constructed pickle follows from 'every view is recomputed from the current list'; in-place edits of an opcode object are outside the sequence interface.",
        note="Trusted: CPython's Lib/_collections_abc.py (parsed, its mix-ins checked to use only the abstract interface); attribute-name based identification of the caches (any attribute of Pickled assigned a non-None value outside __init__ counts as a cache).",
    ),
}

CLAIMED["C09"] = dict(
    technique="abstract interpretation of all 61 opcode handlers over a symbolic stack/memo, compared row by row with pickletools' declared stack effects; structural rules for Stack, Interpreter.step and Trace; effect rule: Interpreter.run / the untraced-only branch of to_ast change nothing besides stepping (Trace drives step() itself)",
    level="Exhaustive over the finite opcode set: each handler's (mark, pops, pushes, peeks, memo traffic) summary on every path equals the effect CPython's pickletools table declares, so stack depth, mark positions and memo keys agree with the real VM after every opcode of every program both accept; Trace is shown passive (one step and one report per opcode, no writes to interpreter or pickle state, returns the interpreter's own program). Symbolic contents of the stack are C05's business.",
    note="Trusted: pickletools.opcodes as the VM's specification; the mark convention (items listed before `mark` survive); the abstract interpreter sa/vm.py (an unrecognised idiom ends ANALYSIS-ERROR, never a verdict).",
)
CLAIMED["C03"] = dict(
    technique="abstract interpretation of the opcode handlers with provenance of every emitted ast.Call / ImportFrom field; taint x droppers analysis for unbound calls; structural check of the refusal mechanisms and module-body chain",
    level="Decides the structural necessary conditions: every call-making opcode emits, on every path, a call whose callee and arguments derive from the VM operands and which is bound in the module body at creation (so POP/POP_MARK/DUP/memo traffic/STOP cannot lose it); every import-making opcode appends the import unless the module is a builtins alias; unmodelled opcodes are refused by one of the two NotImplementedError mechanisms; appended statements reach the Module unfiltered and each decompilation uses a fresh interpreter. Not decided: value-level identity of callee/arguments and multiplicity for every program.",
    note="Trusted: the operand roles of the call/import opcodes read off Lib/pickle.py and frozen in CALL_SPEC/IMPORT_SPEC; sa/vm.py.",
)

CLAIMED["C05"] = dict(
    technique="per-opcode value-flow summaries (abstract interpretation) checked against a frozen table of the VM's value semantics; container-identity rule for in-place opcodes; ASDL field typing of every AST node built",
    level="Structural necessary conditions only: every value-building opcode routes its VM operands into the node it builds with the VM's coverage, order and identity (constants carry the argument in a fresh Constant, slice builders take the whole slice in stack order, TUPLEn keep operand order, APPEND(S)/ADDITEMS/SETITEM(S) add exactly their operands); opcodes that mutate a container in the VM keep that very node (or its bound variable) so memoised references stay shared; every AST node is well-formed so unparse prints what was built. Equality of the executed decompilation with the VM's value for every program is a value-level property and is NOT claimed.",
    note="Trusted: pickletools operand order, Lib/pickle.py value semantics frozen in the table, ast.<Node>.__doc__ ASDL signatures, sa/vm.py. Aliasing through new_variable rebinding (memo keeps the node, stack keeps the Name) is a known incompleteness.",
)
CLAIMED["C13"] = dict(
    technique="effect analysis of observers (who writes which shared object), one-shot-iterator typing of AST fields, cache-atomicity via CFG, set-iteration lint on the decompile/analysis path, import-graph check of the analysis registry; reachability-based exclusion of process-wide setting changes (recursion limit, environment, cwd, filters) from every read-only query",
    level="Excludes structurally the known sources of non-determinism and observer effects: one-shot iterators in AST fields, writes by opcode handlers to the shared opcode objects, state kept on the singleton analyses or written into inspected nodes, Interpreter/Trace writing into the Pickled they observe, partially filled caches, ordered iteration over sets (hash-seed dependence), shared mutable defaults, import-order dependence of the registry. It does not prove equality of answers across processes as such.",
    note="Trusted: the enumeration of non-determinism sources is complete for this code base (no threads, no time, no randomness - see C17 for the file-format module); attribute-name based identification of shared objects.",
)

CLAIMED["C02"] = dict(
    technique="CFG dominance / post-dominance on the checked loader (must-pass-through parse -> analysis -> allowing verdict edge), def-use of the stream parameter, handler reachability, resolution of what each arming site binds",
    level="Decides the fail-closed structure: no path to a real unpickler or to a value return avoids the parse of the caller's stream, the safety analysis of that very object and the allowing edge of `severity <= threshold`; the refusing edge only raises UnsafeFileError carrying that verdict; no exception handler can fall through to a load; the unpickler is fed the re-serialisation of the analysed object and the stream is touched exactly once (no TOCTOU); every arming path (checked loader, global hook, context manager, import hook) binds that loader or a faithful wrapper. That the returned object equals the stock unpickler's is a value property (C06) and is not claimed.",
    note="Trusted: C10.order for the meaning of `<=`; C06.concat for dumps(); name resolution of sa/model.py; the list of real unpickler entry points (UNPICKLERS).",
)

CLAIMED["C12"] = dict(
    technique="typestate / ownership analysis over the four hooked bindings: transitive write sets per lifecycle operation, provenance of each written value, post-dominance of restores in __exit__, single-owner scan; call-time lookup of the real loader on the pickle module object (no import-time bound alias)",
    level="Decides the restore discipline for every history: everything an arming operation may rebind is restored by remove_hook from import-time captures of the originals; the context manager snapshots on entry and restores on every exit path (normal or exceptional, never swallowing the exception) every binding that any lifecycle operation can change while it is open; each armed binding is a checker (C02/C07) and the checked loader's real load stays behind the safe-ML hook; nobody else rebinds the entry points. Whether a probe load of a flagged pickle is refused while armed is C02/C04/C07.",
    note="Trusted: pickle.load is _pickle.load in CPython (checked in Lib/pickle.py's source); the operation alphabet of the property (enter = `with fickling.check_safety():`).",
)

CLAIMED["C11"] = dict(
    technique="points-to over two abstract locations per nested dict (copy-depth of each alias x write-depth of each store) plus an effect scan for writes to module globals, class attributes and shared defaults; inner-dict taint (storing one of the table's own inner dicts into a fresh outer copy makes that copy's inner level shared)",
    level="Decides the whole property as an ownership rule: nothing in the package can write the built-in ML_ALLOWLIST or its inner dicts (each alias is classified by the depth of the copy that made it and by its lifetime), no function of hook.py/ml.py accumulates additions in a module global, class attribute or default argument, and the hooks an activation installs are its own closures reading its own also_allow.",
    note="Trusted: the copy idioms table (dict(), .copy(), {**x}, deepcopy, dict-comprehension with copied values); name-based alias tracking within fickling/ (a reference smuggled through an unrelated container would not be seen).",
)
CLAIMED["C07"] = dict(
    technique="CFG dominance in find_class (resolver dominated by both allowlist tests on the unmodified parameters), structural check of the installed closures, completeness of the rebound entry-point set against the pickle module's API with torch's source parsed for the attributes its load path uses",
    level="Decides that find_class resolves only what both allowlist tests admitted, that the installed load/loads hooks always go through that unpickler with the activation's additions and nothing else sees the data, and whether every public entry point of pickle/_pickle (load, loads, Unpickler) is mediated - the last is a genuine, recorded finding on this tree (pickle.Unpickler is not, and torch's nested loaders use it). What third-party callables do at run time is not decided.",
    note="Trusted: _pickle.Unpickler dispatches global lookups to the overridden find_class (documented API); torch/serialization.py parsed from the installed package when present.",
)

CLAIMED["C01"] = dict(
    technique="who-may-call reachability over a class-hierarchy call graph (over-approximating) from every analysis entry point, with a frozen effect table classifying each reachable external callable / builtin / attribute read / dynamic dispatch",
    level="Decides the whole property as an absence-of-effects claim: from parse, stacked parse, decompile, unparse, trace, safety check, likely-safe query and the CLI's decompile/trace/check-safety arms no code path reaches an operation that imports, resolves, calls, spawns, connects or writes (two named exemptions: the JSON report the caller asked for and read-only opening of the input itself). Over-approximation is the sound direction; an external callable missing from both tables ends ANALYSIS-ERROR, never a pass.",
    note="Trusted base: the effect table in sa/effects.py (114 distinct external callables reachable on this tree, each read and classified) and the CHA resolution in sa/callgraph.py; C extension behaviour of the audited-inert callables (pickletools.genops tokenises only; stdlib_list.in_stdlib reads a packaged list).",
)

CLAIMED["C19"] = dict(
    technique="type discipline across sibling analyses: yield/return typing of every analyze(), kind inference for each AnalysisResult field by a local def-use walk, report-chain agreement, guardedness of node-attribute dereferences against the node classes the opcode handlers can emit; totality of computed-key lookups in literal tables (helper enumerated over two periods of its modular arithmetic)",
    level="Decides that every analysis produces AnalysisResult objects only, each with a Severity member, a string message and a JSON-serialisable trigger; that the report is built from severity.name, a string and detailed_results(); that the checked loader raises UnsafeFileError with the default report of the same result; and that `.id`/`.attr`/`.module`/`.names` dereferences on the analysis path are valid for every node kind fickling can emit. Exceptions that depend on operand values (e.g. a non-string STACK_GLOBAL module) are not decided.",
    note="Trusted: the kind-inference heuristics in sa/props/c19.py (unknown kinds are not flagged); E5 summaries for which node classes exist.",
)

CLAIMED["C04"] = dict(
    technique="structural check of the floor analyses (denylist contents, CFG-dominated severities, prefix-coverage idiom, exact std-lib predicate and exemption), registration chain, view completeness via the E5 unbound-call set, and an interference analysis of the shared already-reported set over Analysis.ALL order",
    level="Decides that each floor rule exists with at least the stated severity over the documented vocabulary, is registered and run by the default analyzer, sees every call and import statement of the decompiled program (opcode choice, memo use, the fate of the return value cannot hide one - together with C03), and cannot be silenced by an earlier analysis through the de-duplication set. The verdict of a particular program depends on unparse text and on name collisions with stdlib imports (the flow-insensitive likely-safe exemption) and is not decided.",
    note="Trusted: the documented vocabulary frozen in DOC_DANGEROUS/DOC_BAD_CALLS (from the property text); stdlib_list's data; class-definition order = Analysis.ALL order (analysis.py before ml.py).",
)

CLAIMED["C15"] = dict(
    technique="interpretation (sa/objeval, an interpreter for the repository's own classes over abstract instances) of ConstantOpcode.new(v).encode() over boundary representatives of the property's value classes, of Cls(arg).encode() for every registered opcode class over representatives of its pickletools descriptor, and of the UNICODE text encoder over the reader's character classes; the produced bytes are read back by pickletools.genops (the reader's specification); who-may-construct rule for classes with a defective encoder; the type-level rules (validator priority search over kinds, admitted ranges vs struct formats) are kept as candidate information only",
    level="Decides both halves of the property for the finite set of boundary representatives its quantifier names (integers around 0, 2^7, 2^8, 2^16, 2^31, 2^32, 2^63, 2^64 and huge, both signs; floats incl. -0.0, inf, nan; both booleans; text over ASCII / Latin-1 / BMP / astral / control / lone surrogate / numeric-looking / quotes / backslashes / newlines and at the 255/256-byte and 65535/65536-byte length boundaries; byte strings; non-constants): ConstantOpcode.new either refuses or yields an opcode whose interpreted encoding the standard disassembler reads as exactly one opcode carrying an equal value of the same kind; and every registered opcode class, constructed directly, encodes to bytes that disassemble back to that opcode and argument or refuses. The encoders touch their argument only through comparisons with constants, fixed-width packing and length computation, so one representative per boundary class decides the class; values strictly inside a class are not enumerated. Nested lists/dicts are decided structurally by C08 (argument encoder) down to these leaves. All findings this rule family produced on the pinned tree (text escaping, STRING family, LONG1/LONG4, booleans, lone surrogates) were repaired in /repo and are listed as fixed in known_findings.json.",
    note="Trusted: pickletools.genops / descriptors as the reader's specification; struct.pack as pure arithmetic; sa/objeval.py (an unsupported construct ends ANALYSIS-ERROR, never a verdict); the mirror of ConstantOpcode's registration idiom (constant_registry).",
)

CLAIMED["C18"] = dict(
    technique="finite-domain abstract interpretation of the CLI's --inject and decompile arms (opaque pickle records; dumps/injections/interpreter constructions recorded, not performed) for all n<=3, all targets, all flag combinations; CFG dominance for the range guard; structural rules for the variable counter; interpretation of ConstantOpcode.new(payload).encode() over text payload classes (accepted implies serialisable)",
    level="Decides that the --inject arm emits exactly n pickles with only the target injected once (with the requested flags) and everything else dumped verbatim in order, that an out-of-range target returns non-zero having written nothing, and that the decompile arm gives every stacked pickle a fresh block of `_var` ids and its own result name on both the trace and non-trace paths. Byte identity of untouched pickles is C06's, validity of each program C05's.",
    note="Trusted: sa/minieval.py; that 3 stacked pickles exercise every index relation the arm's slices/loops can distinguish (the arm only uses target, target+1 and the ends).",
)

CLAIMED["C06"] = dict(
    technique="structural rules on the serialisers (plain concatenation of retained bytes), source-of-bytes and None-vs-truthiness rules in the parser, save/restore pairing on the stream position over a CFG with exceptional edges, boundedness of reads, end positioning and the stacking loop",
    level="Decides necessary conditions only: dumps/dump/dumps_partial are unfiltered concatenations of opcode.data which prefers the retained source bytes; every parsed opcode's bytes are sliced from the input and offset 0 is treated as a position; every seek/read inside the genops loop is undone on every exit of the iteration so the tokeniser never desynchronises; the parser only positions (never reads) the stream after the last opcode; stacked parsing normalises once and keeps every non-empty parse. Byte equality of dumps() with the input prefix for every opcode encoding and length boundary, and tell() values, are arithmetic over genops positions - not decided. One genuine finding is recorded (non-seekable streams are drained).",
    note="Trusted: pickletools.genops as a tokeniser that only advances the stream; the idiom tables in sa/props/c06.py.",
)

CLAIMED["C08"] = dict(
    technique="abstract interpretation of the injection helpers over an abstract opcode list [PROTO, FRAME, BODY, STOP] followed by a symbolic run of the produced opcode template on a VM with pickletools' stack effects, exhaustive over the helpers' flag space and several argument shapes, base protocol 0/4, memo sizes below/above the one-byte GET boundary and symbolic memo-derived keys",
    level="Template discipline (necessary, not sufficient): for every helper and flag combination the spliced opcodes perform exactly one REDUCE of the injected callable with exactly the given arguments, leave [obj] (keep modes) or [result] (replace modes) at the single trailing STOP, read only memo keys the template itself wrote (the MEMOIZE key being derived from a symbolic run of the base made before MEMOIZE is inserted), and the prefix block lands right after the PROTO/FRAME header. Not decided: that every effect of every base pickle still happens in order (memo-key collisions with sparse base keys, stale FRAME lengths, base pickles leaving garbage on the stack), and the safety verdict of the rewritten pickle beyond C04's table. One genuine finding recorded (append_python(pop_result=False)).",
    note="Trusted: sa/minieval.py interpreting the helpers' own source; pickletools stack effects of the dozen template opcodes; BODY as a stand-in for any base body that nets [] -> [obj].",
)

CLAIMED["C17"] = dict(
    technique="finite-domain abstract interpretation (sa/minieval) of identify_pytorch_file_format, find_file_properties, check_and_find_in_zip, check_if_model_archive_format and check_for_corruption over abstract files (all 32 marker subsets x member placement x zip at offset 0 / displaced / absent x tar kind x stacked pickle x model-archive members; answers compared with the documented table), and of check_pickle / StackedPickle.load over abstract streams of pickles; reachability/effect analysis from identify_pytorch_file_format (literal read modes, no write/extract/rename, no module-level state or non-determinism source); def-use of create_polyglot's input paths; acquire/release pairing of temporary artefacts over a CFG with exceptional edges",
    level="Decides the read-only / deterministic structure of identification; that, given the answers of the third-party probes (torch's _is_zipfile, tarfile/zipfile.is_*, the member list), the answer is exactly the documented rows that match, in the documented order, with the PyTorch v1.3 floor, and only for zips at offset 0, plus exactly the non-zip formats whose evidence is present; that the stacks torch's legacy save writes (first pickle of 2, 3 or 4 opcodes) count as valid pickles and files without a pickle do not; that polyglot construction only ever copies from its inputs; and that every temporary artefact is removed on every exit. Whether the third-party probes answer on real bytes as torch's own loader does, substring-vs-exact member matching on look-alike names, and that a successful polyglot is identified as both constituent formats depend on third-party parsers and data - not decided.",
    note="Trusted: the documented table/marker list frozen from the property text and the module docstring; audited readers listed in AUDITED_READERS; sa/minieval.py interpreting the functions' own source; the opcode counts of the legacy format's first pickle (LONG STOP / PROTO LONG1 STOP / PROTO FRAME LONG1 STOP).",
)

CLAIMED["C16"] = dict(
    technique="finite-domain abstract interpretation of inject_payload's insertion arm over an abstract zip archive (opaque member records incl. an empty member and a look-alike name; opens/reads/writes/renames/removes and the injection call recorded), plus structural rules for the member predicate and the per-wrapper parse; interpretation of ConstantOpcode.new(payload).encode() over text payload classes (accepted implies serialisable)",
    level="Archive-level clauses only, explicitly partial: every member of the input archive is written once, in order, under the same name and byte-verbatim except the model pickle, which is the re-serialisation after exactly one injection of the payload; the member replaced is the member parsed; the input is only read unless overwrite is requested, in which case the output is renamed onto it and no stray output remains; the parsed pickle is per wrapper. That loading runs the payload exactly once and reconstructs an equal model (tensor/storage integrity, zip metadata) needs torch at run time and is NOT claimed.",
    note="Trusted: sa/minieval.py interpreting the method's own source; the seven-member abstract archive exercises every relation the loop body can distinguish (is/ is not the model pickle, empty/non-empty, look-alike suffix).",
)

_NOT_YET = "checker not built yet in this session (planned per DESIGN.md section 3); nothing is claimed until it exists"
NOT_APPLICABLE = {p: _NOT_YET for p in [f"C{i:02d}" for i in range(1, 20)]}
