"""Carry every seeded change over a new `fix:` commit by a 3-way merge instead of by line offsets: a hunk whose context occurs
several times in a file (the three `if module in ("__builtin__", ...)` blocks of GLOBAL / STACK_GLOBAL / INST) otherwise lands in the
wrong function once lines shift.  For each seed: check out OLD (a commit on which the seed's effective patch applies exactly),
apply, commit, cherry-pick onto HEAD, and store the resulting diff as patch.rebased.diff.  Usage: rebase_seeds.py <old-commit>"""
import json, shutil, subprocess, sys, tempfile
from concurrent.futures import ThreadPoolExecutor
from pathlib import Path

VERIF = Path(__file__).resolve().parent.parent
OLD = sys.argv[1]


def sh(cmd, cwd):
    p = subprocess.run(cmd, cwd=cwd, capture_output=True, text=True)
    return p.returncode, p.stdout + p.stderr


def one(d: Path):
    wt = Path(tempfile.mkdtemp(prefix="seedb-", dir="/tmp")); shutil.rmtree(wt)
    try:
        rc, out = sh(["git", "-C", "/repo", "worktree", "add", "-q", "--detach", str(wt), OLD], "/")
        if rc:
            return d.name, "worktree: " + out
        patch = d / ("patch.rebased.diff" if (d / "patch.rebased.diff").exists() else "patch.diff")
        rc, out = sh(["git", "apply", str(patch)], wt)
        if rc:
            return d.name, f"does not apply on {OLD}: {out[-200:]}"
        sh(["git", "add", "-A"], wt)
        rc, out = sh(["git", "-c", "user.name=seed", "-c", "user.email=seed@example.invalid", "commit", "-q", "-m", "seed"], wt)
        if rc:
            return d.name, "commit: " + out[-200:]
        c = sh(["git", "rev-parse", "HEAD"], wt)[1].strip()
        head = sh(["git", "-C", "/repo", "rev-parse", "HEAD"], "/")[1].strip()
        sh(["git", "checkout", "-q", "--detach", head], wt)
        rc, out = sh(["git", "-c", "user.name=seed", "-c", "user.email=seed@example.invalid", "cherry-pick", c], wt)
        if rc:
            return d.name, "CONFLICT: " + out[-300:]
        rc, diff = sh(["git", "diff", head, "HEAD", "--", "fickling"], wt)
        (d / "patch.rebased.diff").write_text(diff)
        return d.name, "ok"
    finally:
        sh(["git", "-C", "/repo", "worktree", "remove", "--force", str(wt)], "/")
        shutil.rmtree(wt, ignore_errors=True)


seeds = sorted(p for p in (VERIF / "seeded").iterdir() if p.is_dir() and (p / "patch.diff").exists())
with ThreadPoolExecutor(max_workers=8) as ex:
    for name, st in ex.map(one, seeds):
        if st != "ok":
            print(name, st)
print("done", len(seeds))
