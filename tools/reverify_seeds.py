"""Re-confirm every seeded change against /repo's *current* HEAD (after the fix: commits): does the patch still
apply, does its demonstration still pass without it and fail with it?  Writes seeded/<id>/current.json."""
import json, os, shutil, subprocess, sys, tempfile
from concurrent.futures import ThreadPoolExecutor
from pathlib import Path
PY = "/venv/bin/python"
VERIF = Path(__file__).resolve().parent.parent

def sh(cmd, cwd, timeout=900):
    p = subprocess.run(cmd, cwd=cwd, capture_output=True, text=True, timeout=timeout)
    return p.returncode, (p.stdout + p.stderr)

def one(d: Path):
    wt = Path(tempfile.mkdtemp(prefix="seedr-", dir="/tmp")); shutil.rmtree(wt)
    res = {"seed": d.name}
    try:
        sh(["git", "-C", "/repo", "worktree", "add", "-q", "--detach", str(wt), "HEAD"], "/")
        res["head"] = sh(["git", "-C", "/repo", "log", "--format=%h", "-1"], "/")[1].strip()
        rc0, o0 = sh([PY, str(d / "demo.py")], wt)
        res["demo_without_patch_rc"] = rc0
        patch = d / ("patch.rebased.diff" if (d / "patch.rebased.diff").exists() else "patch.diff")
        rc, out = sh(["git", "apply", str(patch)], wt)
        if rc:
            rc, out = sh(["patch", "-p1", "-s", "-f", "--no-backup-if-mismatch", "-i", str(patch)], wt)
        res["applies"] = rc == 0
        res["patch_used"] = patch.name
        if rc == 0:
            rc1, o1 = sh([PY, str(d / "demo.py")], wt)
            res["demo_with_patch_rc"] = rc1
            res["demo_with_patch_tail"] = o1[-200:]
            rq, oq = sh([PY, "-m", "pytest", "-q", "-p", "no:cacheprovider", "-x", "test/test_pickle.py", "test/test_crashes.py", "test/test_hook.py", "test/test_unpickler.py"], wt)
            res["quick_tests_rc"] = rq
        res["status"] = ("no-longer-applies" if not res["applies"] else "still-violates" if rc0 == 0 and res.get("demo_with_patch_rc") not in (0, None) else "demo-fails-on-clean-head" if rc0 != 0 else "neutralised-by-fix")
        return res
    finally:
        sh(["git", "-C", "/repo", "worktree", "remove", "--force", str(wt)], "/")
        shutil.rmtree(wt, ignore_errors=True)
        (d / "current.json").write_text(json.dumps(res, indent=1))

seeds = sorted(p for p in (VERIF / "seeded").iterdir() if p.is_dir() and (not sys.argv[1:] or any(a in p.name for a in sys.argv[1:])))
with ThreadPoolExecutor(max_workers=8) as ex:
    for r in ex.map(one, seeds):
        print(r["seed"], r["status"], flush=True)
