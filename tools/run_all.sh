#!/bin/sh
# Run every registered quick check on /repo's current tree; print one line per check.
cd "$(dirname "$0")/.." || exit 2
rc=0
for p in $(/venv/bin/python -c "import json;print(' '.join(c['property_id'] for c in json.load(open('MANIFEST.json'))['checks']))"); do
  out=$(/venv/bin/python -m sa.check "$p" --tier "${1:-quick}" 2>&1); code=$?
  kf=$(printf '%s\n' "$out" | grep -c '^KNOWN-FINDING')
  echo "$p exit=$code known_findings=$kf"
  [ $code -ne 0 ] && { printf '%s\n' "$out" | grep -E 'VIOLATION|ANALYSIS-ERROR|finding:' ; rc=1; }
done
exit $rc
