"""Run the registered checks against every seeded change (scratch copy of /repo/fickling + patch),
and print which check catches which change.  Usage: run_seeds.py [-k substr] [--all-props]
Nothing is written to /repo; scratch copies live under /tmp and are deleted immediately."""
import json, os, shutil, subprocess, sys, tempfile
from concurrent.futures import ThreadPoolExecutor
from pathlib import Path

VERIF = Path(__file__).resolve().parent.parent
PY = "/venv/bin/python"


def claimed():
    m = json.load(open(VERIF / "MANIFEST.json"))
    return [c["property_id"] for c in m["checks"]]


def run_seed(d: Path, props):
    tmp = Path(tempfile.mkdtemp(prefix="sa-seed-"))
    try:
        root = tmp / "repo"
        shutil.copytree("/repo/fickling", root / "fickling")
        patch = d / ("patch.rebased.diff" if (d / "patch.rebased.diff").exists() else "patch.diff")
        p = subprocess.run(["patch", "-p1", "-s", "-f", "--no-backup-if-mismatch", "-i", str(patch)], cwd=root, capture_output=True, text=True)
        if p.returncode:
            return d.name, None, "patch does not apply to the current tree: " + (p.stdout + p.stderr)[-200:]
        res = {}
        for pid in props:
            env = dict(os.environ, FICKLING_REPO=str(root), SA_EVIDENCE_DIR=str(tmp / "ev"), SA_JOBS=os.environ.get("SA_JOBS", "2"), SA_CACHE_DIR=os.environ.get("SA_CACHE_DIR", "/tmp/sa-cache"))
            try:
                q = subprocess.run([PY, "-m", "sa.check", pid], cwd=VERIF, env=env, capture_output=True, text=True, timeout=900)
            except subprocess.TimeoutExpired:
                res[pid] = (2, [], [f"ANALYSIS-ERROR property={pid}: the check did not finish within the batch runner's time limit"])
                continue
            keys = [l.split("key=")[1].split(" at ")[0] for l in q.stdout.splitlines() if "finding: key=" in l]
            err = [l for l in q.stdout.splitlines() if l.startswith("ANALYSIS-ERROR")]
            res[pid] = (q.returncode, keys, err)
        return d.name, res, ""
    finally:
        shutil.rmtree(tmp, ignore_errors=True)


def main():
    k = sys.argv[sys.argv.index("-k") + 1] if "-k" in sys.argv else ""
    base = Path(sys.argv[sys.argv.index("--dir") + 1]) if "--dir" in sys.argv else VERIF / "seeded"
    seeds = sorted(p for p in base.iterdir() if p.is_dir() and k in p.name and (p / "meta.json").exists())
    cl = claimed()
    out = {}
    def job(d):
        meta = json.load(open(d / "meta.json"))
        props = cl if "--all-props" in sys.argv else [p for p in cl if p == meta.get("breaks_property", meta.get("property"))] or []
        if "--all-props" not in sys.argv:
            # also the properties that share machinery
            props = sorted(set(props) | set(x for x in cl if x in meta.get("also_check", [])))
        return run_seed(d, props)
    with ThreadPoolExecutor(max_workers=16) as ex:
        for name, res, err in ex.map(job, seeds):
            if res is None:
                print(f"{name}: {err}")
                continue
            caught = {p: ks for p, (rc, ks, e) in res.items() if rc == 1}
            undec = {p: e for p, (rc, ks, e) in res.items() if rc == 2}
            status = "CAUGHT" if caught else ("UNDECIDED" if undec else ("not-run" if not res else "MISSED"))
            print(f"{name}: {status} {json.dumps(caught) if caught else ''} {json.dumps(undec) if undec else ''}")
            out[name] = {"status": status, "caught_by": caught, "undecided": undec}
    if "--dir" not in sys.argv:
        json.dump(out, open(VERIF / "seeded" / "RESULTS.json", "w"), indent=1, sort_keys=True)
    elif "--save" in sys.argv:
        json.dump(out, open(sys.argv[sys.argv.index("--save") + 1], "w"), indent=1, sort_keys=True)


if __name__ == "__main__":
    main()
