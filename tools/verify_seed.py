"""Confirm a seeded change myself, in a scratch worktree of /repo (outside /repo and /verif):
patch applies, demo FAILS with it and PASSES without it, and the existing test-suite result is
unchanged (41 stable tests pass).  Usage: verify_seed.py <dir with patch.diff/demo.py/meta.json> ...
Writes <dir>/verify.json.  Worktrees are removed immediately.
"""

import json
import os
import shutil
import subprocess
import sys
import tempfile
import xml.etree.ElementTree as ET
from concurrent.futures import ThreadPoolExecutor
from pathlib import Path

PY = "/venv/bin/python"
BASE = json.load(open("/root/.vp/BASELINE.json"))
STABLE = set(BASE["stable_pass"])


def sh(cmd, cwd, timeout=1800):
    p = subprocess.run(cmd, cwd=cwd, shell=isinstance(cmd, str), capture_output=True, text=True, timeout=timeout)
    return p.returncode, (p.stdout + p.stderr)


def verify(d: Path, run_tests=True):
    d = d.resolve()
    wt = Path(tempfile.mkdtemp(prefix="seedv-", dir="/tmp"))
    res = {"seed": d.name}
    try:
        shutil.rmtree(wt)
        rc, out = sh(["git", "-C", "/repo", "worktree", "add", "-q", "--detach", str(wt), "HEAD"], "/")
        if rc:
            res["error"] = "worktree: " + out
            return res
        rc0, out0 = sh([PY, str(d / "demo.py")], wt, 600)
        res["demo_without_patch"] = {"rc": rc0, "tail": out0[-300:]}
        patch = d / ("patch.rebased.diff" if (d / "patch.rebased.diff").exists() else "patch.diff")
        rc, out = sh(["git", "apply", str(patch)], wt)
        if rc:
            rc, out = sh(["patch", "-p1", "-s", "-f", "--no-backup-if-mismatch", "-i", str(patch)], wt)
        res["applies"] = rc == 0
        if rc:
            res["error"] = "patch does not apply: " + out[-400:]
            return res
        rc1, out1 = sh([PY, str(d / "demo.py")], wt, 600)
        res["demo_with_patch"] = {"rc": rc1, "tail": out1[-400:]}
        if run_tests:
            junit = wt / "junit.xml"
            rc, out = sh(f"{PY} -m pytest -q -p no:cacheprovider --timeout=900 --continue-on-collection-errors --junitxml={junit} >/dev/null 2>&1", wt, 3000)
            passed = set()
            try:
                for tc in ET.parse(junit).getroot().iter("testcase"):
                    if not any(ch.tag in ("failure", "error", "skipped") for ch in tc):
                        passed.add(f"{tc.get('classname')}::{tc.get('name')}")
            except Exception as e:
                res["error"] = f"junit: {e}"
            res["tests"] = {"stable_passing": len(STABLE & passed), "stable_total": len(STABLE), "missing": sorted(STABLE - passed)}
        res["ok"] = bool(rc0 == 0 and rc1 != 0 and (not run_tests or res.get("tests", {}).get("missing") == []))
        return res
    finally:
        sh(["git", "-C", "/repo", "worktree", "remove", "--force", str(wt)], "/")
        shutil.rmtree(wt, ignore_errors=True)
        (d / "verify.json").write_text(json.dumps(res, indent=1))


def main():
    dirs = [Path(a) for a in sys.argv[1:] if not a.startswith("-")]
    run_tests = "--no-tests" not in sys.argv
    with ThreadPoolExecutor(max_workers=int(os.environ.get("JOBS", "8"))) as ex:
        for r in ex.map(lambda d: verify(d, run_tests), dirs):
            print(r["seed"], "OK" if r.get("ok") else "NOT-OK", {k: v for k, v in r.items() if k in ("error", "tests")}, flush=True)


if __name__ == "__main__":
    main()
