from sa.model import *
from sa.vm import VM
import sys
r=load_repo()
ops,_=opcode_registry(r)
vm=VM(r)
only=set(sys.argv[1:])
for oc in ops:
    if only and oc.opname not in only: continue
    try:
        paths, run, wrapped = vm.summarise(oc)
    except Exception as ex:
        print(oc.opname, 'ERROR', type(ex).__name__, ex); continue
    norm=[p for p in paths if p.outcome=='normal']
    print(f"{oc.opname:16} paths={len(paths)} normal={len(norm)}")
    for p in paths:
        s=p.state
        print("   ", p.outcome, p.describe())
        print("       sinks", [v.short() for v,_ in s.sinks], "memoW", [(k.short(),v.short()) for k,v,_ in s.memo_writes], "memoR", [k.short() for k,_ in s.memo_reads], "mut", [(m.target.short(),m.field,m.how,m.arg.short() if m.arg else None) for m in s.mutations], "iw", s.interp_writes, "peek", s.peeked, "empty", s.assumed_empty)
